#!/usr/bin/env python3
"""Validate MANIFEST.json and evidence/*.json against the harness schemas (python3-vt has jsonschema)."""
import json, sys, glob
import jsonschema
ok = True
def v(path, schema):
    global ok
    try:
        jsonschema.validate(json.load(open(path)), json.load(open(schema)))
        print("valid  ", path)
    except Exception as e:
        ok = False
        print("INVALID", path, str(e)[:300])
v('/verif/MANIFEST.json', '/root/.vp/MANIFEST.schema.json')
for p in sorted(glob.glob('/verif/evidence/*.json')):
    v(p, '/root/.vp/EVIDENCE.schema.json')
sys.exit(0 if ok else 1)
