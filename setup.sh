#!/bin/bash
# One-time setup after a fresh restore (offline): build the shim and the simulator, then run the
# determinism self-test on a small sample.
set -eu
HERE="$(cd "$(dirname "$0")" && pwd)"
cd "$HERE"
export CARGO_NET_OFFLINE=true
export ZSIM_VERIF_DIR="$HERE"
gcc -O2 -shared -fPIC -o shim/libzsimrandom.so shim/getrandom.c -ldl
( cd zsim && cargo build --release --offline )
LD_PRELOAD="$HERE/shim/libzsimrandom.so" zsim/target/release/zsim selftest determinism --n 4
