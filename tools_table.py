#!/usr/bin/env python3
"""Regenerates the seeded-change table in DESIGN.md (between the seeded-table markers) from /verif/seeded/*/meta.json."""
import json, glob, os, re
rows = []
for d in sorted(glob.glob('/verif/seeded/C*-*')):
    m = json.load(open(f'{d}/meta.json'))
    sid = m['seeded_id']
    first = ''
    notes = m.get('needs_to_manifest', '')
    for line in notes.splitlines():
        if line.startswith('#'):
            first = line.lstrip('# ').strip()
            break
    first = re.sub(r'^C\d\d mutant \d+\s*[—-]\s*', '', first)
    first = re.sub(r'^C\d\d[- ]M?\d+\s*[—:-]\s*', '', first)
    patch = open(f'{d}/patch.diff').read()
    files = sorted(set(re.findall(r'^\+\+\+ b/(\S+)', patch, re.M)))
    det = m.get('detection', {})
    cells = []
    for k, v in sorted(det.items()):
        if v.get('detected'):
            cells.append(f"**caught** by `{k.split(':')[0]}` {k.split(':')[1]} (oracle `{v.get('oracle')}`, run {v.get('runs_until_found')}, {v.get('wall_s')} s)")
        elif v.get('exit') == 0:
            cells.append(f"missed by `{k.split(':')[0]}` {k.split(':')[1]}")
        else:
            cells.append(f"`{k}` exit {v.get('exit')}")
    rows.append(f"| {sid} | {first[:150]} | {', '.join('`'+f+'`' for f in files)} | {'; '.join(cells) or 'not run yet'} |")
table = "| id | change (one line) | file | outcome of `./check` on the patched tree |\n|---|---|---|---|\n" + "\n".join(rows)
p = '/verif/DESIGN.md'
s = open(p).read()
b, e = '<!-- seeded-table-begin -->', '<!-- seeded-table-end -->'
if b in s:
    s = s[:s.index(b) + len(b)] + "\n" + table + "\n" + s[s.index(e):]
    open(p, 'w').write(s)
    print('table updated:', len(rows), 'rows')
else:
    print(table)
