#!/usr/bin/env python3
"""Generates /verif/MANIFEST.json from the table below (kept as a script so the file stays consistent)."""
import json

PURE = {
 "C04": "pure function of an in-memory transaction value: no stream, clock, storage, peer, schedule or crash point for a simulator to own (DESIGN.md section 6)",
 "C07": "pure arithmetic over (inputs, outputs, policies, heights); nothing to schedule or fault (DESIGN.md section 6)",
 "C09": "pure integer arithmetic on amounts; no nondeterminism or fault surface (DESIGN.md section 6)",
 "C10": "pure string/byte functions (address codecs, F4Jumble); no seam (DESIGN.md section 6)",
 "C11": "pure key derivation and encoding; no seam (DESIGN.md section 6)",
 "C12": "pure URI parsing/rendering; no seam (DESIGN.md section 6)",
 "C14": "the builder is a pure function of its inputs and an RNG; no crash point, schedule or stream (DESIGN.md section 6)",
 "C16": "pure planner; its cost 'oracle' is a closure argument, i.e. input, not an environment that fails over time (DESIGN.md section 6)",
 "C19": "pure verification function of (n, k, input, nonce, solution); no seam (DESIGN.md section 6)",
}

# property -> (engine scenario, level category, level text, design ref, level note, technique)
CHECKS = {
 "C20": ("mmr", "exploration",
   "Seeded search over append/truncate/restart histories of the chain-history tree driven through a simulated node record store (restart from serialised records with the minimal partial view before any operation, short/flipped/non-canonical record reads), all three node versions, checked after every operation against an independent from-scratch MMR, the array-layout length, append-then-truncate restoration and minimal-view == full-view. Sampling, not enumeration.",
   "4.11", "Trusts blake2b_simd and the harness re-implementation of the ZIP 221 combination rule; leaves carry consecutive heights; counters capped so sums cannot overflow.",
   "deterministic simulation: seeded histories with restarts and faulty record reads vs. reference MMR"),
}

PENDING = {}
CHECKS["C08"] = ("spend", "exploration",
   "Up to three spend flows with distinct lock owners act on one synced SQLite wallet (1-3 accounts, notes in up to three pools): propose_transfer with or without a lock request, with owner-scoped lock overrides and pool restrictions; a second flow's whole locked proposal executed on another connection from inside the first flow's progress handler (the select->lock window, at a seeded VM step); create + store with mock Sapling provers and short/long expiries; abandon (owner-scoped unlock); owner-agnostic clearing; chain advance with re-sync so that lock windows and pending transactions expire. Every returned proposal is checked against the generator's ground truth and the model's lock / pending-transaction records: inputs are wallet notes of the requested account with the chain's value and mined height, unspent in scanned blocks, with the confirmations the policy requires, at or below the step's anchor, not spent by an unexpired stored pending transaction, not under an active lock of another (non-admitted) owner, pairwise distinct; every step balances inputs = payments + change + fee; payments never exceed the selected inputs; a lock is never acquired over an active foreign lock; get_locked_outputs equals the model's per-note lock table after every operation.",
   "4.6", "Transparent coins and Orchard/Ironwood transaction creation (real proving) are not part of the flows yet; the uncoverable-request clause is checked conservatively.",
   "deterministic simulation: interleaved spend flows on two connections under a simulated chain clock vs. spendability and lock model")
CHECKS["C18"] = ("lifecycle", "exploration",
   "Discrete-event simulation whose clock is the block height: a committed migration (assembled from the real scheduling functions over a generated dependency graph, or an arbitrary representable state from the crate's own generator) is driven by the documented consumer loop (advance_migration -> perform the step -> record -> persist) against a simulated chain, miner, node and wallet scan, with broadcast rejection, lost broadcast records (crash between submitting and recording), never-mined transactions, reorgs with re-mining, foreign spends, scan lag, estimate skew and jumps, long sleeps, store errors on any write and consumer restarts from the store. Checked on every step: a Broadcast step names a Proved transaction whose dependencies are mined, that is due at the effective target, unexpired at the scanned target, not withheld, without an open failure report and not dead; prove batches name distinct live ids; lifecycle states only move forward except that truncate_to_height demotes exactly the rows mined above the height and clears exactly the marks / reports stamped above it; terminal statuses are absorbing (Complete only through a rollback that un-mines); no silent stranding; every persisted state is also written to and read back from the real SQLite store and must be equal, with at most one non-terminal migration per account; after the last fault the migration completes or surfaces Replan / Rebuild, Waiting being accepted only while something can still change.",
   "4.10", "The satisfiability oracle and mined_height answer from the simulated chain (composed through classify_input_observations); PCZT contents are opaque bytes; Rebuild is answered by superseding; the SQLite store's own oracle queries are not exercised here (they belong to C02).",
   "deterministic simulation: discrete-event consumer/miner/reorg/crash histories vs. step and lifecycle invariants + SQLite round trip")
CHECKS["C17"] = ("clock", "exploration",
   "Partial. While the discrete-event clock of the migration simulation runs (heights up to u32::MAX, drawn grids, activation and commit heights) every scheduling artefact the engine emits under simulator-chosen RNG stream kinds (uniform, zeros-heavy, ones-heavy, low-entropy, counter; a draw budget turns a non-terminating rejection loop into a reported failure) is checked: broadcast heights never decrease from the start and gaps stay within the delay cap, every expiry equals an independently computed canonical rolling expiry (saturating), drawn and re-drawn anchors are grid boundaries strictly above activation, not before the funding note, strictly below the most recent boundary and within the age cap, absent exactly when a brute-force scan finds none; wake-up schedules are strictly increasing, never in the past, cover every live transfer exactly once inside its proving window. Auxiliary only: wake-up minimality against a brute-force piercing set on <=10 windows and classification monotonicity along seeded evidence-reveal orders.",
   "4.9", "Minimality and evidence-monotonicity are input-space clauses carried as cheap auxiliary oracles; confirmatory evidence clauses are held fixed per source as the type documents.",
   "deterministic simulation: engine artefacts checked under a simulated clock and adversarial RNG streams")
CHECKS["C02"] = ("atomic", "fault_enumeration",
   "For wallet states reached by fault-free histories on a real SQLite wallet (both journal modes) and for each of twelve write operations (scan_cached_blocks/put_blocks, truncate_to_height, truncate_to_chain_state, update_chain_tip, create_account, import_account_ufvk, delete_account, put_*_subtree_roots, get_next_available_address, put_received_transparent_utxo, set_transaction_status, queue_rescans; legal and illegal arguments): a reference run on a copy gives the post-state, VM-step, commit and row-write counts; the operation is then repeated on the original with SQLITE_INTERRUPT at stratified + sampled VM steps, a statement-level ABORT at sampled row writes that leaves the transaction open (TEMP triggers), each commit refused, database+journal/WAL images copied mid-operation and recovered by a fresh connection, a second connection dumping the database inside one read transaction (and get_wallet_summary) from inside the writer's progress handler and right after every commit, the writer run from inside a reader's progress handler, and an un-faulted retry. Every outcome must be (Err and pre-state) or (Ok and reference post-state), through both connections; every snapshot and recovered image must be pre or post; no transaction may be left open; the retry must reproduce the reference post-state. Fault positions are sampled inside each operation, not enumerated exhaustively.",
   "4.2", "Interrupts are not delivered to BEGIN/ROLLBACK/SAVEPOINT/RELEASE statements (an interrupted transaction-control statement is an artefact of sqlite3_interrupt, not of I/O failure); an error after the operation's final commit with the complete post-state is accepted (the retry is idempotent); store_decrypted_tx, store_transactions_to_be_sent, lock_outputs and the migration store are not yet swept; the disk below SQLite is real tmpfs.",
   "deterministic simulation: fault / crash / second-connection interleaving at seeded SQLite VM steps vs. reference post-state")
CHECKS["C05"] = ("batch", "exploration",
   "Generated chains (three pools, several accounts, internal/external/foreign outputs, spends of tracked and untracked nullifiers, multi-transaction blocks) are scanned range by range. A well-formed range is scanned inline (public scan_block + put_blocks) on a copy and through scan_cached_blocks on the wallet while the simulator owns every batch-decryption task: guarded hook H1 hands the tasks BatchRunner would give to rayon to the simulator, hook V1 in a vendored flume calls the simulator when a receive is about to block; the choice stream picks the flush threshold (1,2,3,7,20,100), which tasks run at the spawn point, and in which order the rest run at blocking receives; a receive that blocks with no task pending is a reported deadlock. The two databases must be identical and equal the generator's ground truth (account, value, scope, position, nullifier, spends). Other ranges carry one continuity corruption (height, prev_hash, per-pool tree sizes) or one malformed field (16 kinds) and must be rejected with an error, without panic and without any change to the wallet.",
   "4.4", "Task-atomic schedules (a batch task runs to completion once started); the tokio sync decryptor is not simulated; documented panics on wrong-length block hash / prev_hash / txid, height >= 2^32 and tx index >= 2^16 are listed known findings.",
   "deterministic simulation: simulator-owned task scheduler (spawn + blocking-receive seams) and corrupted block sources vs. inline scan and generator ground truth")
CHECKS["C01"] = ("ledger", "exploration",
   "Seeded search over wallet histories on a real SQLite wallet fed by a simulated, forkable chain (real note encryption, several accounts, three pools, internal/external receipts, spends, foreign traffic, empty blocks): honest sync steps from either end, arbitrary-order scans with repeats, forks with re-mined transactions, explicit rewinds, restarts, tip updates, failing / stale block sources and SQLite interrupts, then a fault-free sync to completion. After every operation the reported total+uneconomic balance per account and pool must equal the ledger of notes received and not spent in scanned blocks of the current chain (an envelope only while transactions orphaned by a rewind are within their 40-block expiry guess), every scanned note must be present with the right account, value, scope, nullifier, position, mined height and spend, and nothing phantom may exist; when fully scanned, mined notes, spends and balances must equal those of a fresh wallet that scanned the same chain once in height order. Sampling, not enumeration.",
   "4.1", "Transparent coins enter only through wallet-built transactions (not yet part of this check); prior chain states handed to the wallet are the true frontiers; a rewind refused by the wallet ends the run without verdict.",
   "deterministic simulation: seeded wallet histories with faults vs. ledger model + differential fresh wallet")
CHECKS["C06"] = ("trees", "exploration",
   "Same wallet histories as C01 with birthdays just below shard boundaries, custom anchor-retention intervals and runs long enough to exceed the 100-checkpoint pruning budget. After every operation: each retained checkpoint's tree size equals the chain's, its root equals the independently computed frontier root of the simulated chain (or is not yet computable only while blocks below it are unscanned), Merkle paths of unspent scanned notes recompute the true root, all active pools are checkpointed at the same heights above the lazily pruned old end, every scanned retention-grid boundary keeps a checkpoint (also on empty blocks and after more than 100 newer checkpoints), and nothing above a rewind height remains.",
   "4.5", "The frontier oracle uses incrementalmerkletree::Frontier (a dependency, not code under test) over commitments the harness generated itself; roots are sampled per operation and checked exhaustively at the end of a run.",
   "deterministic simulation: seeded wallet histories with rewinds/forks vs. independent frontier oracle")
CHECKS["C15"] = ("queue", "exploration",
   "Wallet histories of tip updates, scans of chunks from either end of any suggested range, discovered notes, forks, rewinds, restarts and faulty scans. After every queue mutation the stored queue must be a sorted, gap-free, non-overlapping partition with adjacent equal priorities merged, suggest_scan_ranges must equal the entries above Scanned in priority order, and exactly the heights the model scanned must be marked Scanned. Bounded liveness: once faults stop, the documented sync loop (reorg detection by hash, tip update, first suggestion, scan, rewind on continuity error) must reach 'nothing to suggest, every block from the birthday to the tip scanned, fully-scanned height = tip' within a step bound derived from the number of blocks and ranges.",
   "4.8", "Scans are confined to suggested ranges (what the property quantifies over); the pointwise priority model for caller-supplied insertions (queue_rescans, forced rescans through rewind_to_chain_state) is not yet part of this check.",
   "deterministic simulation: seeded sync histories vs. queue invariants + bounded-liveness oracle")
CHECKS["C03"] = ("stream", "fault_enumeration",
   "The stream-seam part of the property: streams of back-to-back generated transactions (every branch / version), block headers and whole blocks are delivered through a simulator-owned Read/Write transport that injects short reads and writes, EINTR, truncation/EOF, hard errors, zero-length writes, single-bit flips, non-canonical and hostile count fields and out-of-range amounts at seeded positions; oracles: exact consumption at every record boundary, identical txid / auth commitment / field-by-field rendering / re-serialisation, v1-v4 and header ids equal sha256d of the consumed bytes, straddling record rejected, errors propagated with only a prefix written, no panic, no count-driven allocation, accepted mutants are re-serialisation fixpoints. zcash_encoding 0.5 primitives are driven the same way against a reference encoding. Fault positions are sampled per record, not enumerated exhaustively.",
   "4.3", "Traffic is what the repository's arb_tx generators produce (normalised by one round trip only where the generator emits values no wire transaction can carry); Sprout JoinSplit bodies are not generated; published zcash_encoding 0.4 (registry) is exercised only through the transaction codecs.",
   "deterministic simulation: faulty Read/Write transport over generated record streams, seeded fault positions")

def main():
    checks = []
    for pid, (scen, cat, text, ref, note, tech) in sorted(CHECKS.items()):
        checks.append({
            "property_id": pid,
            "quick_cmd": f"./check {pid} --tier quick",
            "thorough_cmd": f"./check {pid} --tier thorough",
            "evidence_file": f"/verif/evidence/{pid}.json",
            "replay_cmd_template": f"./check {pid} --replay {{path}}",
            "engine": "zsim",
            "level_claimed": {"category": cat, "text": text, "design_ref": f"DESIGN.md section {ref}"},
            "level_note": note,
            "technique": tech,
        })
    na = [{"property_id": k, "reason": v} for k, v in sorted({**PURE, **PENDING}.items())]
    m = {
        "version": 1,
        "setup_cmd": "./setup.sh",
        "hooks": {
            "guard": "--cfg zcash_librustzcash_verif",
            "enable": "RUSTFLAGS='--cfg zcash_librustzcash_verif' (set in /verif/zsim/.cargo/config.toml); zsim depends on /repo's crates by path, so every ./check rebuilds from /repo's working tree with the hooks on",
            "baseline_off_cmd": "cd /repo && cargo nextest run --workspace --no-fail-fast --tool-config-file pb:/w/lib/nextest.toml --profile pb --test-threads 8 --offline",
            "source_commits": HOOK_COMMITS,
            "add_only": True,
        },
        "engines": [{
            "name": "zsim", "path": "/verif/zsim",
            "serves_properties": sorted(CHECKS.keys()),
            "kind_free_text": "deterministic simulator (one binary): seeded choice stream decides every operation, schedule and fault; replay files are recorded choice sequences; real library code on harness-owned seams (SQLite connection hooks, Read/Write streams, BlockSource, task spawner, blocking-receive hook in a vendored flume, PoolMigration store traits, clock, RNG)",
        }],
        "checks": checks,
        "not_applicable": na,
        "notes": "Known findings: /verif/known_findings.json. Exit codes of ./check: 0 held, 1 violation (VIOLATION line, replay file under /verif/replays), 2 harness error. VERIF_SEED selects the base seed (default fixed), VERIF_BUDGET_S caps the simulation wall time.",
    }
    json.dump(m, open('/verif/MANIFEST.json', 'w'), indent=1)
    print("wrote MANIFEST.json:", len(checks), "checks,", len(na), "not applicable")

HOOK_COMMITS = ["abbf854"]
CHECKS["C13"] = ("parties", "exploration",
   "The PCZT roles run as parties that share nothing but serialized PCZTs: a coordinator dispatches its current (or a stale, possibly pre-IO-Finaliser) copy to Signers (one per transparent key, Sapling, Orchard, Ironwood), Provers (Sapling, Orchard, Ironwood), two Updaters, a Redactor and a compacting Redactor, and merges whatever replies the transport delivers with the Combiner (after resolve_fields, the documented consumer step); the transport drops, duplicates, reorders, delays, truncates and flips bits of messages, a faulty party may return its copy with one field changed (any field, through the crate's public v2 serde type), copies from before the IO Finaliser may arrive late, and somebody tries to finalise and extract at arbitrary moments. Transactions: transparent-only in the v5 and v6 formats (1-4 inputs with distinct keys, 1-3 outputs, optional fallback lock time and a required height lock time on one input, drawn per run), a v5 transaction with a transparent input, a Sapling spend and an Orchard spend, and a v6 transaction with a transparent input and an Ironwood spend with a full 512-byte memo (real proofs, made once per process). Monitors: the txid implied by every copy any role returns, by every combination (also after a damaged message was merged) and by every extracted transaction equals the Creator's; a copy that by itself implies a different txid is refused by the Combiner; parse(serialize(p)) re-serialises identically and the default encoding is v1 exactly when the v1 conversion succeeds, after every role; honest copies (including pre-finalisation ones) always combine, in every sampled order / grouping / duplication to identical bytes, idempotently, keeping every updater entry and every contribution (shown by extraction after adding only what no copy carried); a PCZT for a different transaction is refused; extraction succeeds exactly when every required signature and proof has been delivered; no role panics on any message that parses.",
   "4.7", "The shielded pipelines have one fixed shape each; P2SH/multisig inputs and the ZIP 374 deferred-anchor flow are not driven; Prover parties answer every request with the contribution computed once over the base copy; a randomised (RedJubjub/RedPallas) signer signs once per run and retransmits afterwards, because two honest but different signatures for one spend are a legitimate Combiner conflict.",
   "deterministic simulation: role parties over a lossy / reordering / corrupting simulated transport vs. txid, encoding, combiner and extraction monitors")
main()
