#!/usr/bin/env python3
"""Generates /verif/MANIFEST.json from the table below (kept as a script so the file stays consistent)."""
import json

PURE = {
 "C04": "pure function of an in-memory transaction value: no stream, clock, storage, peer, schedule or crash point for a simulator to own (DESIGN.md section 6)",
 "C07": "pure arithmetic over (inputs, outputs, policies, heights); nothing to schedule or fault (DESIGN.md section 6)",
 "C09": "pure integer arithmetic on amounts; no nondeterminism or fault surface (DESIGN.md section 6)",
 "C10": "pure string/byte functions (address codecs, F4Jumble); no seam (DESIGN.md section 6)",
 "C11": "pure key derivation and encoding; no seam (DESIGN.md section 6)",
 "C12": "pure URI parsing/rendering; no seam (DESIGN.md section 6)",
 "C14": "the builder is a pure function of its inputs and an RNG; no crash point, schedule or stream (DESIGN.md section 6)",
 "C16": "pure planner; its cost 'oracle' is a closure argument, i.e. input, not an environment that fails over time (DESIGN.md section 6)",
 "C19": "pure verification function of (n, k, input, nonce, solution); no seam (DESIGN.md section 6)",
}

# property -> (engine scenario, level category, level text, design ref, level note, technique)
CHECKS = {
 "C20": ("mmr", "exploration",
   "Seeded search over append/truncate/restart histories of the chain-history tree driven through a simulated node record store (restart from serialised records with the minimal partial view before any operation, short/flipped/non-canonical record reads), all three node versions, checked after every operation against an independent from-scratch MMR, the array-layout length, append-then-truncate restoration and minimal-view == full-view. Sampling, not enumeration.",
   "4.11", "Trusts blake2b_simd and the harness re-implementation of the ZIP 221 combination rule; leaves carry consecutive heights; counters capped so sums cannot overflow.",
   "deterministic simulation: seeded histories with restarts and faulty record reads vs. reference MMR"),
}

PENDING = {}
CHECKS["C03"] = ("stream", "fault_enumeration",
   "The stream-seam part of the property: streams of back-to-back generated transactions (every branch / version), block headers and whole blocks are delivered through a simulator-owned Read/Write transport that injects short reads and writes, EINTR, truncation/EOF, hard errors, zero-length writes, single-bit flips, non-canonical and hostile count fields and out-of-range amounts at seeded positions; oracles: exact consumption at every record boundary, identical txid / auth commitment / field-by-field rendering / re-serialisation, v1-v4 and header ids equal sha256d of the consumed bytes, straddling record rejected, errors propagated with only a prefix written, no panic, no count-driven allocation, accepted mutants are re-serialisation fixpoints. zcash_encoding 0.5 primitives are driven the same way against a reference encoding. Fault positions are sampled per record, not enumerated exhaustively.",
   "4.3", "Traffic is what the repository's arb_tx generators produce (normalised by one round trip only where the generator emits values no wire transaction can carry); Sprout JoinSplit bodies are not generated; published zcash_encoding 0.4 (registry) is exercised only through the transaction codecs.",
   "deterministic simulation: faulty Read/Write transport over generated record streams, seeded fault positions")

def main():
    checks = []
    for pid, (scen, cat, text, ref, note, tech) in sorted(CHECKS.items()):
        checks.append({
            "property_id": pid,
            "quick_cmd": f"./check {pid} --tier quick",
            "thorough_cmd": f"./check {pid} --tier thorough",
            "evidence_file": f"/verif/evidence/{pid}.json",
            "replay_cmd_template": f"./check {pid} --replay {{path}}",
            "engine": "zsim",
            "level_claimed": {"category": cat, "text": text, "design_ref": f"DESIGN.md section {ref}"},
            "level_note": note,
            "technique": tech,
        })
    na = [{"property_id": k, "reason": v} for k, v in sorted({**PURE, **PENDING}.items())]
    m = {
        "version": 1,
        "setup_cmd": "./setup.sh",
        "hooks": {
            "guard": "--cfg zcash_librustzcash_verif",
            "enable": "RUSTFLAGS='--cfg zcash_librustzcash_verif' (set in /verif/zsim/.cargo/config.toml); zsim depends on /repo's crates by path, so every ./check rebuilds from /repo's working tree with the hooks on",
            "baseline_off_cmd": "cd /repo && cargo nextest run --workspace --no-fail-fast --tool-config-file pb:/w/lib/nextest.toml --profile pb --test-threads 8 --offline",
            "source_commits": HOOK_COMMITS,
            "add_only": True,
        },
        "engines": [{
            "name": "zsim", "path": "/verif/zsim",
            "serves_properties": sorted(CHECKS.keys()),
            "kind_free_text": "deterministic simulator (one binary): seeded choice stream decides every operation, schedule and fault; replay files are recorded choice sequences; real library code on harness-owned seams (SQLite connection hooks, Read/Write streams, BlockSource, task spawner, blocking-receive hook in a vendored flume, PoolMigration store traits, clock, RNG)",
        }],
        "checks": checks,
        "not_applicable": na,
        "notes": "Known findings: /verif/known_findings.json. Exit codes of ./check: 0 held, 1 violation (VIOLATION line, replay file under /verif/replays), 2 harness error. VERIF_SEED selects the base seed (default fixed), VERIF_BUDGET_S caps the simulation wall time.",
    }
    json.dump(m, open('/verif/MANIFEST.json', 'w'), indent=1)
    print("wrote MANIFEST.json:", len(checks), "checks,", len(na), "not applicable")

HOOK_COMMITS = ["abbf854"]
PENDING.update({
 "C01": "check not built yet at this commit (planned: wallet-sim ledger, DESIGN.md section 4.1)",
 "C02": "check not built yet at this commit (planned: wallet-sim atomic, DESIGN.md section 4.2)",
 "C05": "check not built yet at this commit (planned: scan-sim batch, DESIGN.md section 4.4)",
 "C06": "check not built yet at this commit (planned: wallet-sim trees, DESIGN.md section 4.5)",
 "C08": "check not built yet at this commit (planned: wallet-sim spend, DESIGN.md section 4.6)",
 "C13": "check not built yet at this commit (planned: pczt-sim parties, DESIGN.md section 4.7)",
 "C15": "check not built yet at this commit (planned: wallet-sim queue, DESIGN.md section 4.8)",
 "C17": "check not built yet at this commit (planned: migration-sim clock, DESIGN.md section 4.9)",
 "C18": "check not built yet at this commit (planned: migration-sim lifecycle, DESIGN.md section 4.10)",
})
main()
