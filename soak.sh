#!/bin/bash
# Multi-seed soak: every registered check, quick tier, several VERIF_SEED values; prints one line per run.
cd "$(dirname "$0")"
./setup.sh > /dev/null 2>&1 || { echo "setup failed"; exit 2; }
for s in ${SEEDS:-1 2 3 4 5}; do
  for p in ${PROPS:-C20 C03 C17 C18 C13 C05 C08 C15 C01 C06 C02}; do
    out=$(VERIF_SEED=$s ./check $p --tier quick --no-evidence 2>&1)
    rc=$?
    echo "seed=$s $p exit=$rc $(echo "$out" | grep -E 'violation in|harness error' | head -1 | cut -c1-400)"
    if [ $rc -ne 0 ]; then mkdir -p soak_replays; cp replays/*.json soak_replays/ 2>/dev/null; fi
  done
done
