#!/usr/bin/env python3
"""Run a property's check against a seeded mutant: apply /verif/seeded/<id>/patch.diff to /repo, run
./check <property> (quick tier, no evidence rewrite), undo the patch, record the outcome in meta.json.
usage: tools_detect.py <seeded_id> [<seeded_id> ...] [--tier quick|thorough] [--prop Cxx]"""
import json, os, re, subprocess, sys, time
args = [a for a in sys.argv[1:] if not a.startswith('--')]
tier = 'quick'
prop_override = None
for i, a in enumerate(sys.argv):
    if a == '--tier': tier = sys.argv[i + 1]; args = [x for x in args if x != tier]
    if a == '--prop': prop_override = sys.argv[i + 1]; args = [x for x in args if x != prop_override]
for sid in args:
    d = f'/verif/seeded/{sid}'
    meta = json.load(open(f'{d}/meta.json'))
    prop = prop_override or meta['property']
    st = subprocess.run('git -C /repo status --porcelain', shell=True, capture_output=True, text=True).stdout.strip()
    if st:
        print('refusing: /repo has uncommitted changes:', st); sys.exit(2)
    out = ''
    rc = None
    t = time.time()
    try:
        r = subprocess.run(f'git -C /repo apply {d}/patch.diff', shell=True, capture_output=True, text=True)
        if r.returncode != 0:
            print(sid, 'patch does not apply', r.stderr); continue
        p = subprocess.run(f'./check {prop} --tier {tier} --no-evidence', shell=True, cwd='/verif', stdout=subprocess.PIPE, stderr=subprocess.STDOUT, text=True, timeout=7200)
        rc, out = p.returncode, p.stdout
    finally:
        subprocess.run('git -C /repo checkout -- . && git -C /repo clean -fdq', shell=True)
    dt = time.time() - t
    m = re.search(r'violation in scenario (\S+) run (\d+) seed (\d+): \[([^\]]+)\] (.*)', out)
    det = {'check': f'./check {prop} --tier {tier}', 'exit': rc, 'detected': rc == 1, 'wall_s': round(dt),
           'scenario': m.group(1) if m else None, 'oracle': m.group(4) if m else None, 'detail': (m.group(5)[:300] if m else None),
           'runs_until_found': int(m.group(2)) + 1 if m else None}
    if rc not in (0, 1):
        det['output_tail'] = out[-800:]
    meta.setdefault('detection', {})[f'{prop}:{tier}'] = det
    json.dump(meta, open(f'{d}/meta.json', 'w'), indent=1)
    print(sid, prop, tier, 'DETECTED' if rc == 1 else ('missed' if rc == 0 else f'exit {rc}'), det['oracle'], f'{dt:.0f}s')
