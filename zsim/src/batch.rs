//! C05 — compact-block scanning: inline vs. batched under any schedule, continuity and malformed
//! field rejection. The batch-decryption tasks that `BatchRunner` would hand to the rayon pool are
//! handed to a simulator-owned task queue (hook H1); the blocking receive in flume calls back into
//! the simulator (hook V1), which then decides which pending tasks run, in which order.

use std::cell::RefCell;
use std::collections::BTreeMap;

use rand_chacha::ChaChaRng;
use rusqlite::Connection;
use serde_json::json;
use zcash_client_backend::data_api::chain::scan_cached_blocks;
use zcash_client_backend::data_api::{WalletRead, WalletWrite};
use zcash_client_backend::proto::compact_formats::CompactBlock;
use zcash_client_backend::scanning::{scan_block, Nullifiers, ScanningKeys};
use zcash_client_sqlite::WalletDb;
use zcash_protocol::consensus::BlockHeight;

use crate::atomic::{dump, dump_diff, Dump};
use crate::choices::{Choices, SubRng};
use crate::runner::catch;
use crate::sim::{RunCtx, Scenario, SimResult, Tier, Violation};
use crate::simchain::*;
use crate::wallet::*;

type Task = Box<dyn FnOnce() + Send + 'static>;

struct Sched {
    pending: Vec<Task>,
    rng: SubRng,
    /// percent of spawned tasks that run immediately at the spawn point
    eager_pct: u64,
    /// run order at a blocking receive: 0 = FIFO, 1 = LIFO, 2 = random
    order: u8,
    /// at a receive that could already proceed, still run some pending tasks first
    extra_pct: u64,
    spawned: u64,
    deferred: u64,
    ran_at_block: u64,
    reordered: u64,
    recvs: u64,
    deadlock: bool,
    max_pending: usize,
}

thread_local! {
    static SCHED: RefCell<Option<Sched>> = const { RefCell::new(None) };
}

fn take_next(s: &mut Sched) -> Option<Task> {
    if s.pending.is_empty() {
        return None;
    }
    let i = match s.order {
        0 => 0,
        1 => s.pending.len() - 1,
        _ => s.rng.below(s.pending.len() as u64) as usize,
    };
    if i != 0 {
        s.reordered += 1;
    }
    Some(s.pending.remove(i))
}

fn install(seed: u64, eager_pct: u64, order: u8, extra_pct: u64) {
    SCHED.with(|c| {
        *c.borrow_mut() = Some(Sched { pending: vec![], rng: SubRng::new(seed), eager_pct, order, extra_pct, spawned: 0, deferred: 0, ran_at_block: 0, reordered: 0, recvs: 0, deadlock: false, max_pending: 0 })
    });
    zcash_client_backend::verif_hooks::set_spawner(Some(Box::new(|task: Task| {
        let run_now = SCHED.with(|c| {
            let mut g = c.borrow_mut();
            let s = g.as_mut().unwrap();
            s.spawned += 1;
            s.rng.below(100) < s.eager_pct
        });
        if run_now {
            task();
        } else {
            SCHED.with(|c| {
                let mut g = c.borrow_mut();
                let s = g.as_mut().unwrap();
                s.deferred += 1;
                s.pending.push(task);
                s.max_pending = s.max_pending.max(s.pending.len());
            });
        }
    })));
    flume::verif_sim::set_hook(Some(Box::new(|ready: &dyn Fn() -> bool| {
        // a receive is about to happen on the simulating thread
        let extra = SCHED.with(|c| {
            let mut g = c.borrow_mut();
            let s = g.as_mut().unwrap();
            s.recvs += 1;
            s.rng.below(100) < s.extra_pct
        });
        if extra {
            let t = SCHED.with(|c| take_next(c.borrow_mut().as_mut().unwrap()));
            if let Some(t) = t {
                t();
            }
        }
        // blocking means: other tasks run until the receive can proceed
        while !ready() {
            let t = SCHED.with(|c| {
                let mut g = c.borrow_mut();
                let s = g.as_mut().unwrap();
                let t = take_next(s);
                if t.is_some() {
                    s.ran_at_block += 1;
                }
                t
            });
            match t {
                Some(t) => t(),
                None => {
                    SCHED.with(|c| c.borrow_mut().as_mut().unwrap().deadlock = true);
                    panic!("zsim: deadlock — a receive blocks and no batch task is pending (a batch was never flushed?)");
                }
            }
        }
    })));
}

fn uninstall() -> Option<Sched> {
    zcash_client_backend::verif_hooks::set_spawner(None);
    flume::verif_sim::set_hook(None);
    SCHED.with(|c| c.borrow_mut().take())
}

/// The inline reference: what `scan_cached_blocks` documents, with the public inline `scan_block`.
fn scan_inline(conn: &mut Connection, rng: &mut ChaChaRng, s: &WalletSim, blocks: &[CompactBlock], from: u32) -> Result<usize, String> {
    let from_state = s.chain.chain_state_at(from - 1).ok_or("no chain state")?;
    let mut d = WalletDb::from_connection(conn, s.net, s.clock.clone(), rng);
    if let Some(r) = s.cfg.retention {
        d.set_anchor_retention_interval(zcash_client_backend::data_api::anchor_retention::AnchorRetentionInterval::custom(std::num::NonZeroU32::new(r).unwrap()));
    }
    let ufvks = d.get_unified_full_viewing_keys().map_err(|e| e.to_string())?;
    let keys = ScanningKeys::from_account_ufvks(ufvks);
    let mut prior = d.block_metadata(BlockHeight::from_u32(from - 1)).map_err(|e| e.to_string())?;
    let mut nullifiers = Nullifiers::unspent(&d).map_err(|e| e.to_string())?;
    let mut out = vec![];
    for b in blocks {
        let sb = scan_block(&s.net, b.clone(), &keys, &nullifiers, prior.as_ref()).map_err(|e| format!("{e}"))?;
        nullifiers.update_with(&sb);
        prior = Some(sb.to_block_metadata());
        out.push(sb);
    }
    let n = out.len();
    d.put_blocks(&from_state, out).map_err(|e| e.to_string())?;
    Ok(n)
}

#[derive(Clone, Debug)]
enum Corruption {
    Height(u32),
    PrevHash,
    SaplingSize(i64),
    OrchardSize(i64),
    IronwoodSize(i64),
    DropMetadata,
    Field(&'static str),
}

fn corrupt(cb: &mut CompactBlock, c: &Corruption, r: &mut SubRng) -> bool {
    match c {
        Corruption::Height(h) => cb.height = *h as u64,
        Corruption::PrevHash => {
            if !cb.header.is_empty() {
                // the block's parent is what its header commits to (bytes 4..36); the redundant field,
                // when it is filled in, keeps naming the parent the wallet expects
                let parent = cb.header[4..36].to_vec();
                let i = 4 + r.below(32) as usize;
                cb.header[i] ^= 1 << r.below(8);
                if r.below(2) == 0 {
                    cb.prev_hash = parent;
                }
                return true;
            }
            if cb.prev_hash.is_empty() {
                return false;
            }
            let i = r.below(cb.prev_hash.len() as u64) as usize;
            cb.prev_hash[i] ^= 1 << r.below(8);
        }
        Corruption::SaplingSize(d) | Corruption::OrchardSize(d) | Corruption::IronwoodSize(d) => {
            let Some(m) = cb.chain_metadata.as_mut() else { return false };
            let f = match c {
                Corruption::SaplingSize(_) => &mut m.sapling_commitment_tree_size,
                Corruption::OrchardSize(_) => &mut m.orchard_commitment_tree_size,
                _ => &mut m.ironwood_commitment_tree_size,
            };
            let nv = (*f as i64 + d).max(0) as u32;
            if nv == *f {
                return false;
            }
            *f = nv;
        }
        Corruption::DropMetadata => cb.chain_metadata = None,
        Corruption::Field(name) => {
            // damage one field of one transaction
            let txs: Vec<usize> = (0..cb.vtx.len()).collect();
            let pick = |r: &mut SubRng, n: usize| r.below(n as u64) as usize;
            let shorten = |v: &mut Vec<u8>, r: &mut SubRng| {
                if r.below(2) == 0 && !v.is_empty() {
                    v.pop();
                } else {
                    v.push(0);
                }
            };
            // the redundant hash fields of a header-carrying block are not read
            if !cb.header.is_empty() && matches!(*name, "block.hash" | "block.prev_hash.len") {
                return false;
            }
            match *name {
                "block.hash" => shorten(&mut cb.hash, r),
                "block.prev_hash.len" => shorten(&mut cb.prev_hash, r),
                "block.height.u32" => cb.height = (1u64 << 32) + r.below(1000),
                _ => {
                    if txs.is_empty() {
                        return false;
                    }
                    let t = &mut cb.vtx[pick(r, txs.len())];
                    match *name {
                        "tx.txid" => shorten(&mut t.txid, r),
                        "tx.index" => t.index = (1 << 16) + r.below(100),
                        "sapling.cmu.len" => {
                            if t.outputs.is_empty() {
                                return false;
                            }
                            let i = pick(r, t.outputs.len());
                            shorten(&mut t.outputs[i].cmu, r)
                        }
                        "sapling.cmu.noncanonical" => {
                            if t.outputs.is_empty() {
                                return false;
                            }
                            let i = pick(r, t.outputs.len());
                            t.outputs[i].cmu = vec![0xff; 32];
                        }
                        "sapling.epk.len" => {
                            if t.outputs.is_empty() {
                                return false;
                            }
                            let i = pick(r, t.outputs.len());
                            shorten(&mut t.outputs[i].ephemeral_key, r)
                        }
                        "sapling.ciphertext.len" => {
                            if t.outputs.is_empty() {
                                return false;
                            }
                            let i = pick(r, t.outputs.len());
                            shorten(&mut t.outputs[i].ciphertext, r)
                        }
                        "sapling.nf.len" => {
                            if t.spends.is_empty() {
                                return false;
                            }
                            let i = pick(r, t.spends.len());
                            shorten(&mut t.spends[i].nf, r)
                        }
                        "orchard.nf.len" | "orchard.cmx.len" | "orchard.epk.len" | "orchard.ciphertext.len" | "orchard.cmx.noncanonical" | "orchard.nf.noncanonical" => {
                            let list = if !t.actions.is_empty() && (t.ironwood_actions.is_empty() || r.below(2) == 0) { &mut t.actions } else { &mut t.ironwood_actions };
                            if list.is_empty() {
                                return false;
                            }
                            let i = pick(r, list.len());
                            match *name {
                                "orchard.nf.len" => shorten(&mut list[i].nullifier, r),
                                "orchard.cmx.len" => shorten(&mut list[i].cmx, r),
                                "orchard.epk.len" => shorten(&mut list[i].ephemeral_key, r),
                                "orchard.ciphertext.len" => shorten(&mut list[i].ciphertext, r),
                                "orchard.cmx.noncanonical" => list[i].cmx = vec![0xff; 32],
                                _ => list[i].nullifier = vec![0xff; 32],
                            }
                        }
                        _ => return false,
                    }
                }
            }
        }
    }
    true
}

const FIELDS: [&str; 16] = [
    "block.hash", "block.prev_hash.len", "block.height.u32", "tx.txid", "tx.index", "sapling.cmu.len", "sapling.cmu.noncanonical", "sapling.epk.len", "sapling.ciphertext.len", "sapling.nf.len", "orchard.nf.len",
    "orchard.cmx.len", "orchard.epk.len", "orchard.ciphertext.len", "orchard.cmx.noncanonical", "orchard.nf.noncanonical",
];

pub struct Batch;

fn filtered(d: &Dump) -> Dump {
    d.clone()
}

impl Scenario for Batch {
    fn property(&self) -> &'static str {
        "C05"
    }
    fn name(&self) -> &'static str {
        "batch"
    }
    fn prepare(&self) {
        let _ = template_db();
    }
    fn run(&self, ch: &mut Choices, ctx: &mut RunCtx) -> SimResult {
        let mut cfg = draw_cfg(ch, false);
        cfg.tx_density = *ch.pick("density", &[60u64, 90, 30]);
        cfg.batch_threshold = *ch.pick("threshold", &[Some(1usize), Some(2), Some(3), Some(7), None, Some(20)]);
        ctx.config = cfg_json(&cfg);
        ctx.shape(&format!("t{:?}", cfg.batch_threshold));
        let seed = ch.u64("chain.seed");
        let mut s = WalletSim::new(cfg, seed, ctx)?;
        s.chain.header_mode = *ch.pick("headers", &[0u8, 0, 40, 100]);
        let n0 = 6 + ch.below("init.blocks", 40);
        {
            let mut r = ch.fork_rng("init.chain");
            for _ in 0..n0 {
                s.gen_block(&mut r, ctx);
            }
        }
        let tip = s.chain.tip();
        if let Err(e) = s.update_tip(tip) {
            return ctx.report(Violation::new("update_chain_tip_succeeds", e));
        }
        let n_scans = 1 + ch.below("n_scans", 5);
        let mut next = s.cfg.base_height + 1;
        for _ in 0..n_scans {
            if !ch.more() || next > tip {
                break;
            }
            ch.open("scan");
            let from = next;
            let n = (1 + ch.below("n", 25) as u32).min(tip + 1 - from);
            let blocks: Vec<CompactBlock> = (from..from + n).map(|h| s.chain.block(h).unwrap().cb.clone()).collect();
            let mode = ch.weighted("mode", &[55, 30, 15]);
            match mode {
                // ---- well-formed range: inline reference on a copy, batched under a drawn schedule on the wallet
                0 => {
                    ctx.op("scan_scheduled");
                    if blocks.iter().any(|b| !b.header.is_empty()) {
                        ctx.probe("scanned_block_carries_header");
                    }
                    // inline reference on a copy of the database
                    if s.cfg.wal {
                        let _ = s.conn.execute_batch("PRAGMA wal_checkpoint(TRUNCATE)");
                    }
                    let dir = s.path.parent().unwrap().join(format!("c05-{}", ctx.seq));
                    std::fs::create_dir_all(&dir).unwrap();
                    let ref_path = dir.join("wallet.db");
                    std::fs::copy(&s.path, &ref_path).map_err(|e| Violation::new("harness_copy", e.to_string()))?;
                    let mut rconn = open_conn(&ref_path, false);
                    let mut rrng = s.rng.clone();
                    let inline = catch(|| scan_inline(&mut rconn, &mut rrng, &s, &blocks, from)).map_err(|m| Violation::keyed("no_panic", format!("panic:{}", crate::runner::panic_site(&m)), format!("inline scan_block panicked on a well-formed block: {m}")))?;
                    let inline_dump = dump(&rconn).map_err(|e| Violation::new("dump_readable", e.to_string()))?;
                    drop(rconn);
                    if let Err(e) = &inline {
                        return ctx.report(Violation::new("inline_scan_of_wellformed_blocks_succeeds", format!("blocks {from}..{}: {e}", from + n)));
                    }
                    // batched under the scheduler
                    let eager = *ch.pick("sched.eager", &[0u64, 50, 100, 20]);
                    let order = ch.below("sched.order", 3) as u8;
                    let extra = *ch.pick("sched.extra", &[0u64, 30]);
                    let sseed = ch.u64("sched.seed");
                    install(sseed, eager, order, extra);
                    let r = s.scan(from, n as usize, &SimSourceCfg::default(), ctx);
                    let sched = uninstall().unwrap();
                    ctx.time("batch_tasks", sched.spawned);
                    if sched.deferred > 0 {
                        ctx.fault_n("task_deferred", sched.deferred);
                        ctx.sched(&format!("deferred{}", sched.deferred.min(9)));
                    }
                    if sched.reordered > 0 {
                        ctx.fault_n("task_reordered", sched.reordered);
                        ctx.sched("reordered");
                    }
                    if sched.ran_at_block > 0 {
                        ctx.probe("task_ran_after_collect_started");
                    }
                    if sched.spawned > 3 {
                        ctx.probe("threshold_flush_fired");
                    }
                    if sched.deadlock {
                        return ctx.report(Violation::new("no_deadlock", format!("scan of {from}..{} under schedule (eager {eager}%, order {order}) blocked on a receive with no batch task pending", from + n)));
                    }
                    if !sched.pending.is_empty() {
                        ctx.probe("tasks_left_pending_after_scan");
                    }
                    match r? {
                        Err(e) => return ctx.report(Violation::new("batched_scan_of_wellformed_blocks_succeeds", format!("blocks {from}..{} under schedule (eager {eager}%, order {order}): {e}", from + n))),
                        Ok((a, b)) => {
                            s.model_scanned(a, b, ctx);
                            ctx.event(format!("scan {a}..{b}: {} tasks, {} deferred, {} ran at a blocking receive, {} out of order, {} left pending", sched.spawned, sched.deferred, sched.ran_at_block, sched.reordered, sched.pending.len()));
                        }
                    }
                    ctx.oracle("batched_equals_inline");
                    let batched_dump = dump(&s.conn).map_err(|e| Violation::new("dump_readable", e.to_string()))?;
                    if filtered(&batched_dump) != filtered(&inline_dump) {
                        return ctx.report(Violation::new("batched_equals_inline", format!("blocks {from}..{}: wallet after scan_cached_blocks (threshold {:?}, eager {eager}%, order {order}) differs from the wallet after inline scan_block + put_blocks: {}", from + n, s.cfg.batch_threshold, dump_diff(&inline_dump, &batched_dump))));
                    }
                    // ground truth from the generator
                    s.check_ledger(ctx, true)?;
                    let _ = std::fs::remove_dir_all(&dir);
                    next = from + n;
                }
                // ---- continuity / metadata corruption or malformed field somewhere in the range
                1 | 2 => {
                    ctx.op(if mode == 1 { "scan_continuity_corruption" } else { "scan_malformed_field" });
                    let mut r = ch.fork_rng("corrupt");
                    let victim = ch.idx("victim", blocks.len());
                    let c = if mode == 1 {
                        match ch.below("kind", 7) {
                            0 => Corruption::Height(from + victim as u32 + 1 + r.below(3) as u32),
                            1 => Corruption::Height((from + victim as u32).saturating_sub(1 + r.below(3) as u32)),
                            2 => Corruption::PrevHash,
                            3 => Corruption::SaplingSize(if r.below(2) == 0 { 1 } else { -1 }),
                            4 => Corruption::OrchardSize(if r.below(2) == 0 { 1 } else { -1 }),
                            5 => Corruption::IronwoodSize(if r.below(2) == 0 { 1 } else { -1 }),
                            _ => Corruption::SaplingSize(1 + r.below(50) as i64),
                        }
                    } else {
                        Corruption::Field(FIELDS[ch.idx("field", FIELDS.len())])
                    };
                    let mut cb = blocks[victim].clone();
                    if !corrupt(&mut cb, &c, &mut r) {
                        ch.close();
                        continue;
                    }
                    if !cb.header.is_empty() {
                        ctx.probe("corrupted_block_carries_header");
                    }
                    // a prev_hash corruption of the first block of the range is only detectable if the wallet holds its predecessor
                    if matches!(c, Corruption::PrevHash | Corruption::Field("block.prev_hash.len")) && victim == 0 && !s.scanned.contains(&(from - 1)) {
                        ch.close();
                        continue;
                    }
                    // tree-size metadata of a pool that is inactive / has nothing to compare against may be ignored
                    let pre = dump(&s.conn).map_err(|e| Violation::new("dump_readable", e.to_string()))?;
                    let mut src = SimSourceCfg::default();
                    src.overrides.insert(from + victim as u32, cb);
                    let use_sched = ch.chance("sched.on", 1, 2);
                    if use_sched {
                        install(ch.u64("sched.seed"), *ch.pick("sched.eager", &[0u64, 50, 100]), ch.below("sched.order", 3) as u8, 0);
                    }
                    let r = s.scan(from, n as usize, &src, ctx);
                    let sched = if use_sched { uninstall() } else { None };
                    ctx.fault(if mode == 1 { "continuity_corruption" } else { "malformed_field" });
                    ctx.shape(&format!("{c:?}").chars().take(24).collect::<String>());
                    let desc = format!("{c:?} in block {} of scan {from}..{}", from + victim as u32, from + n);
                    if sched.as_ref().map(|s| s.deadlock).unwrap_or(false) {
                        return ctx.report(Violation::new("no_deadlock", desc));
                    }
                    let outcome = match r {
                        Err(v) => {
                            // a panic: attribute it to the damaged field
                            let key = format!("malformed_field_panics:{}", match &c {
                                Corruption::Field(f) => f.to_string(),
                                other => format!("{other:?}").split('(').next().unwrap_or("").to_string(),
                            });
                            ctx.report(Violation::keyed("no_panic", key, format!("{desc}: {}", v.detail)))?;
                            // the wallet must still be untouched
                            None
                        }
                        Ok(x) => Some(x),
                    };
                    ctx.oracle("corrupted_block_rejected_without_effect");
                    let now = dump(&s.conn).map_err(|e| Violation::new("dump_readable", e.to_string()))?;
                    match outcome {
                        Some(Ok((a, b))) => {
                            // accepted: only legitimate if the corruption is not observable to the scanner
                            let benign = matches!(c, Corruption::DropMetadata);
                            if !benign {
                                return ctx.report(Violation::new("corrupted_block_rejected", format!("{desc}: scan succeeded ({a}..{b})")));
                            }
                            s.model_scanned(a, b, ctx);
                            next = b;
                        }
                        Some(Err(e)) => {
                            ctx.event(format!("{desc}: rejected: {e}"));
                            if now != pre {
                                return ctx.report(Violation::new("rejected_block_not_partially_applied", format!("{desc}: the scan failed ({e}) but the wallet changed: {}", dump_diff(&pre, &now))));
                            }
                        }
                        None => {
                            if now != pre {
                                return ctx.report(Violation::new("rejected_block_not_partially_applied", format!("{desc}: the scan panicked and the wallet changed: {}", dump_diff(&pre, &now))));
                            }
                        }
                    }
                }
                _ => unreachable!(),
            }
            ch.close();
        }
        Ok(())
    }
    fn runs(&self, tier: Tier) -> u64 {
        match tier {
            Tier::Quick => 2500,
            Tier::Thorough => 40_000,
        }
    }
    fn budget_s(&self, tier: Tier) -> u64 {
        match tier {
            Tier::Quick => 120,
            Tier::Thorough => 1500,
        }
    }
    fn rule(&self) -> &'static str {
        "one run = one generated chain and 1-5 scans of consecutive ranges; a well-formed range is scanned inline (public scan_block + put_blocks) on a copy and through scan_cached_blocks on the wallet while the simulator owns the batch tasks (drawn threshold, eager share, run order at blocking receives), the two databases must be equal and match the generator's ground truth; other ranges carry one continuity corruption or one malformed field and must be rejected without effect; non-trivial = a task was deferred / reordered or a corruption was injected; distinct = distinct hash of (threshold, schedule class, corruption kind, outcome)"
    }
    fn components(&self) -> serde_json::Value {
        json!({"scan_block / scan_cached_blocks / BatchRunner / trial decryption / put_blocks on SQLite": "real",
               "rayon pool behind BatchRunner": "replaced by the simulator's task queue (hook H1: zcash_client_backend::verif_hooks::set_spawner)",
               "flume channel": "real code + blocking-receive hook in a vendored copy (V1)",
               "block source": "stub (SimSource)"})
    }
    fn assumptions(&self) -> Vec<&'static str> {
        vec![
            "the schedule space is task-atomic: a batch task runs to completion once started",
            "the tokio-based sync decryptor (feature sync-decryptor) is not simulated",
        ]
    }
    fn expected_probes(&self) -> Vec<&'static str> {
        vec!["threshold_flush_fired", "task_ran_after_collect_started", "scanned_block_carries_header", "corrupted_block_carries_header"]
    }
    fn fault_kinds(&self) -> Vec<&'static str> {
        vec!["task_deferred", "task_reordered", "continuity_corruption", "malformed_field"]
    }
    fn time_note(&self) -> &'static str {
        "simulated time = blocks scanned and batch tasks scheduled"
    }
}

#[allow(dead_code)]
fn _unused(_: BTreeMap<u8, u8>) {}
