//! The wallet simulation: a real `zcash_client_sqlite` wallet on a harness-owned connection, fed by
//! a `SimChain`, with a ledger model, a scan-queue model and an independent frontier oracle.
//! Shared by C01 (ledger), C06 (trees), C15 (queue); C02 and C08 build on the same state.

use transparent::keys::IncomingViewingKey as _;
use zcash_protocol::value::Zatoshis;
use std::collections::{BTreeMap, BTreeSet};
use std::path::PathBuf;
use std::sync::{Arc, OnceLock};
use std::time::{Duration, SystemTime};

use rand_chacha::ChaChaRng;
use rand_core::SeedableRng;
use rusqlite::Connection;
use secrecy::SecretVec;
use serde_json::json;
use shardtree::store::ShardStore;
use zcash_client_backend::data_api::chain::scan_cached_blocks;
use zcash_client_backend::data_api::scanning::ScanPriority;
use zcash_client_backend::data_api::wallet::ConfirmationsPolicy;
use zcash_client_backend::data_api::{AccountBirthday, WalletCommitmentTrees, WalletRead, WalletWrite};
use zcash_client_sqlite::error::SqliteClientError;
use zcash_client_sqlite::util::Clock;
use zcash_client_sqlite::wallet::init::WalletMigrator;
use zcash_client_sqlite::{AccountUuid, WalletDb};
use zcash_protocol::consensus::BlockHeight;
use zcash_protocol::local_consensus::LocalNetwork;

use crate::choices::{Choices, SubRng};
use crate::runner::catch;
use crate::sim::{RunCtx, SimResult, Violation};
use crate::simchain::*;

#[derive(Clone)]
pub struct SimClock(pub Arc<std::sync::atomic::AtomicU64>);
impl Clock for SimClock {
    fn now(&self) -> SystemTime {
        SystemTime::UNIX_EPOCH + Duration::from_secs(self.0.load(std::sync::atomic::Ordering::Relaxed))
    }
}

pub type Db<'a> = WalletDb<&'a mut Connection, LocalNetwork, SimClock, &'a mut ChaChaRng>;

pub fn scratch_root() -> PathBuf {
    let p = if std::path::Path::new("/dev/shm").is_dir() { PathBuf::from("/dev/shm") } else { std::env::temp_dir() };
    p.join(format!("zsim-{}", std::process::id()))
}

/// Schema-only wallet database created once per process by the real migrator, copied per run.
static TEMPLATE: OnceLock<Vec<u8>> = OnceLock::new();

pub fn full_net(nu6_3: Option<u32>) -> LocalNetwork {
    let h = Some(BlockHeight::from_u32(1));
    LocalNetwork { overwinter: h, sapling: h, blossom: h, heartwood: h, canopy: h, nu5: h, nu6: h, nu6_1: h, nu6_2: h, nu6_3: nu6_3.map(BlockHeight::from_u32) }
}

pub fn template_db() -> &'static Vec<u8> {
    TEMPLATE.get_or_init(|| {
        let root = scratch_root();
        std::fs::create_dir_all(&root).expect("scratch dir");
        let path = root.join("template.db");
        let _ = std::fs::remove_file(&path);
        {
            let mut conn = Connection::open(&path).expect("open template");
            rusqlite::vtab::array::load_module(&conn).expect("array module");
            let clock = SimClock(Arc::new(1_700_000_000.into()));
            let rng = ChaChaRng::seed_from_u64(7);
            let mut db = WalletDb::from_connection(&mut conn, full_net(Some(1)), clock, rng);
            WalletMigrator::new().init_or_migrate(&mut db).expect("wallet schema");
        }
        let bytes = std::fs::read(&path).expect("read template");
        let _ = std::fs::remove_file(&path);
        bytes
    })
}

/// A transaction the wallet saw on a branch that was later abandoned.
#[derive(Clone, Debug)]
pub struct Orphan {
    pub txid: [u8; 32],
    pub observed: u32,
    pub outs: Vec<OutTruth>,
    pub nfs: Vec<(Pool, [u8; 32])>,
    /// (pool, txid, index) of the wallet notes this transaction spent on the branch where it was seen
    pub spent_rows: Vec<(Pool, [u8; 32], usize)>,
}

#[derive(Clone, Debug)]
pub struct WalletCfg {
    pub n_accounts: usize,
    pub nu6_3: Option<u32>,
    pub base_height: u32,
    pub base_sizes: [u64; 3],
    pub wal: bool,
    pub retention: Option<u32>,
    pub batch_threshold: Option<usize>,
    pub subtree_chunk: Option<usize>,
    pub tx_density: u64,   // percent of blocks that carry transactions
    pub own_pct: u64,      // percent of outputs addressed to the wallet
    pub spend_pct: u64,    // chance (percent) that a transaction spends an own note
    /// pools in which wallet accounts receive notes (others only carry foreign traffic)
    pub own_pools: Vec<Pool>,
}

/// A transparent coin the client told the wallet about (compact blocks carry no transparent data, so the
/// generator's ground truth for coins is this list: the coin is an output of a transaction in block `height` of
/// the chain as it was when the coin was reported).
#[derive(Clone, Debug)]
pub struct TCoin {
    pub txid: [u8; 32],
    pub idx: u32,
    pub acct: usize,
    pub value: u64,
    pub height: u32,
    /// still in a block of the current chain
    pub on_chain: bool,
    pub state: TState,
}
#[derive(Clone, Copy, Debug, PartialEq, Eq)]
pub enum TState {
    /// the wallet was told the coin's block and no rewind has gone below it since
    Mined,
    /// a rewind went below the coin's block: the wallet must have un-mined it (un-mined coins with unknown expiry do not count)
    Unmined,
    /// a forced rescan may or may not have un-mined it (the truncation point of rewind_to_chain_state is the wallet's choice)
    Unknown,
}

pub struct WalletSim {
    _dir: tempfile::TempDir,
    pub path: PathBuf,
    pub conn: Connection,
    pub net: LocalNetwork,
    pub cfg: WalletCfg,
    pub chain: SimChain,
    pub accounts: Vec<AccountUuid>,
    pub rng: ChaChaRng,
    pub clock: SimClock,
    // ---- model
    /// heights the wallet has scanned on the current chain
    pub scanned: BTreeSet<u32>,
    pub orphans: Vec<Orphan>,
    /// the chain forked below the wallet's highest scanned block and the wallet has not rewound yet
    pub dirty_fork: Option<u32>,
    /// blocks of the most recently abandoned branch (for the stale-source fault)
    pub stale: Vec<SimBlock>,
    pub tip_told: Option<u32>,
    pub max_scanned_ever: u32,
    pub root_cache: BTreeMap<(Pool, [u8; 32]), [u8; 32]>,
    pub txlog: BTreeMap<Vec<u8>, Vec<String>>,
    pub last_root_err: Option<String>,
    /// retention-grid heights that were scanned when >=100 checkpoint-bearing blocks above them had already been scanned
    pub late_boundaries: BTreeSet<u32>,
    /// heights h such that some successful scan batch started at h + 1: `update_tree` inserted (and, on the
    /// retention grid, retained) the batch's starting frontier as a checkpoint at h in every pool
    pub frontier_starts: BTreeSet<u32>,
    /// heights whose block data the wallet holds (they stay in `scanned`) but which the scan queue was told to
    /// scan again (forced rescan through rewind_to_chain_state / queue_rescans)
    pub requeued: BTreeSet<u32>,
    /// heights scanned in a batch that lay below the lowest checkpoint some pool's tree held at the time: update_tree
    /// does not add cross-pool checkpoints below a tree's minimum (documented there), so the pools need not agree here
    pub below_min_scanned: BTreeSet<u32>,
    /// the highest height that has ever been at or below some pool's pruning horizon (its 100th newest checkpoint
    /// while it held 100 or more): pruning is lazy and per pool, so at or below it the pools need not agree
    pub align_floor: u32,
    pub t_coins: Vec<TCoin>,
    /// the client passes subtree roots on (it has done so at least once) / the chain has changed since it last did
    pub roots_put: bool,
    pub roots_stale: bool,
    /// last transparent balance (total + uneconomic) read per account
    pub t_balances: BTreeMap<usize, u64>,
}

pub fn open_conn(path: &std::path::Path, wal: bool) -> Connection {
    let conn = Connection::open(path).expect("open wallet db");
    rusqlite::vtab::array::load_module(&conn).expect("array module");
    if wal {
        let _: String = conn.query_row("PRAGMA journal_mode=WAL", [], |r| r.get(0)).expect("wal");
    }
    conn
}

macro_rules! db {
    ($s:expr) => {{
        let mut d = zcash_client_sqlite::WalletDb::from_connection(&mut $s.conn, $s.net, $s.clock.clone(), &mut $s.rng);
        if let Some(r) = $s.cfg.retention {
            d.set_anchor_retention_interval(zcash_client_backend::data_api::anchor_retention::AnchorRetentionInterval::custom(std::num::NonZeroU32::new(r).unwrap()));
        }
        d
    }};
}
pub(crate) use db;

pub fn draw_cfg(ch: &mut Choices, shard_edge: bool) -> WalletCfg {
    let n_accounts = 1 + ch.below("cfg.accounts", 3) as usize;
    let nu6_3 = *ch.pick("cfg.nu6_3", &[Some(1u32), Some(1), None, Some(1040)]);
    let base_height = 1000;
    let mut base_sizes = [0u64; 3];
    for (i, s) in base_sizes.iter_mut().enumerate() {
        let k = ch.weighted("cfg.base_size", &[3, 3, if shard_edge { 4 } else { 1 }]);
        *s = match k {
            0 => 0,
            1 => 1 + ch.below("cfg.base.small", 40),
            _ => 65536 * (1 + ch.below("cfg.base.k", 3)) - ch.below("cfg.base.delta", 24),
        };
        let _ = i;
    }
    // a pool that activates after the base height starts empty
    if nu6_3.map(|h| h > base_height).unwrap_or(true) {
        base_sizes[2] = 0;
    }
    WalletCfg {
        n_accounts,
        nu6_3,
        base_height,
        base_sizes,
        wal: ch.chance("cfg.wal", 1, 2),
        retention: if nu6_3.is_some() && ch.chance("cfg.retention", 1, 2) { Some(4 + ch.below("cfg.ret.n", 21) as u32) } else { None },
        batch_threshold: *ch.pick("cfg.batch", &[None, Some(1usize), Some(2), Some(3), Some(7)]),
        subtree_chunk: *ch.pick("cfg.chunk", &[None, Some(1usize), Some(2), Some(3), Some(7)]),
        tx_density: *ch.pick("cfg.density", &[45u64, 15, 80]),
        own_pct: *ch.pick("cfg.own", &[60u64, 30, 90]),
        spend_pct: *ch.pick("cfg.spend", &[35u64, 10, 70]),
        own_pools: POOLS.to_vec(),
    }
}

impl WalletSim {
    pub fn new(cfg: WalletCfg, seed: u64, ctx: &mut RunCtx) -> Result<Self, Violation> {
        let net = full_net(cfg.nu6_3);
        let root = scratch_root();
        std::fs::create_dir_all(&root).expect("scratch root");
        let dir = tempfile::Builder::new().prefix("run-").tempdir_in(&root).expect("run dir");
        let path = dir.path().join("wallet.db");
        std::fs::write(&path, template_db()).expect("copy template");
        let conn = open_conn(&path, cfg.wal);
        let mut r = SubRng::new(seed ^ 0xF00D);
        let base = Frontiers { sap: fab_sap_frontier(cfg.base_sizes[0], &mut r), orch: fab_orch_frontier(cfg.base_sizes[1], &mut r), iron: fab_orch_frontier(cfg.base_sizes[2], &mut r) };
        let chain = SimChain::new(net, cfg.n_accounts, cfg.base_height, base, seed);
        zcash_client_backend::verif_hooks::set_knob("batch_size_threshold", cfg.batch_threshold);
        zcash_client_backend::verif_hooks::set_knob("subtree_chunk_size", cfg.subtree_chunk);
        if let Some(v) = cfg.batch_threshold {
            ctx.knob("batch_size_threshold", v as u64);
        }
        if let Some(v) = cfg.subtree_chunk {
            ctx.knob("subtree_chunk_size", v as u64);
        }
        ctx.event("wallet file created, accounts next");
        let mut s = WalletSim {
            _dir: dir,
            path,
            conn,
            net,
            cfg,
            chain,
            accounts: vec![],
            rng: ChaChaRng::seed_from_u64(seed ^ 0xABCD),
            clock: SimClock(Arc::new(1_700_000_000.into())),
            scanned: BTreeSet::new(),
            orphans: vec![],
            dirty_fork: None,
            stale: vec![],
            tip_told: None,
            max_scanned_ever: 0,
            root_cache: BTreeMap::new(),
            txlog: BTreeMap::new(),
            last_root_err: None,
            late_boundaries: BTreeSet::new(),
            frontier_starts: BTreeSet::new(),
            requeued: BTreeSet::new(),
            below_min_scanned: BTreeSet::new(),
            align_floor: 0,
            t_coins: vec![],
            roots_put: false,
            roots_stale: false,
            t_balances: BTreeMap::new(),
        };
        let birthday = AccountBirthday::from_parts(s.chain.chain_state_at(s.cfg.base_height).unwrap(), None);
        for i in 0..s.cfg.n_accounts {
            let seedv = SecretVec::new(sim_seed());
            let res = {
                let mut d = db!(s);
                d.create_account(&format!("acct{i}"), &seedv, &birthday, None)
            };
            match res {
                Ok((id, usk)) => {
                    // the harness derives the same keys the wallet derived
                    let k = acct_keys(&s.net, i as u32);
                    if usk.to_unified_full_viewing_key().encode(&s.net) != k.ufvk.encode(&s.net) {
                        return Err(Violation::new("harness_keys_match_wallet", format!("account {i}: wallet derived a different UFVK")));
                    }
                    s.accounts.push(id);
                }
                Err(e) => return Err(Violation::new("create_account_succeeds", format!("create_account #{i} failed: {e}"))),
            }
        }
        ctx.event(format!("{} accounts created", s.accounts.len()));
        Ok(s)
    }

    pub fn restart(&mut self) {
        // drop every handle and reopen from the file
        let path = self.path.clone();
        let wal = self.cfg.wal;
        let old = std::mem::replace(&mut self.conn, Connection::open_in_memory().unwrap());
        drop(old);
        self.conn = open_conn(&path, wal);
    }

    // ------------------------------------------------------------ chain generation

    /// Generate one block according to the density configuration.
    pub fn gen_block(&mut self, r: &mut SubRng, ctx: &mut RunCtx) {
        let t_gen = std::time::Instant::now();
        let height = self.chain.tip() + 1;
        let mut txs = vec![];
        if r.below(100) < self.cfg.tx_density {
            let n_tx = 1 + r.below(3) as usize;
            let mut avail = self.chain.unspent_notes();
            let (_, chain_spent) = self.chain.ledger();
            for _ in 0..n_tx {
                // sometimes re-mine a transaction from an abandoned branch
                if !self.chain.orphan_pool.is_empty() && r.below(100) < 25 {
                    let i = r.below(self.chain.orphan_pool.len() as u64) as usize;
                    let t = self.chain.orphan_pool.swap_remove(i);
                    // only if its pools are active here and it is not already on this chain
                    let ok = t.outs.iter().all(|o| self.chain.pool_active(o.pool, height));
                    let dup = self.chain.blocks.iter().any(|b| b.cb.vtx.iter().any(|x| x.txid == t.ctx.txid)) || txs.iter().any(|x: &TxTpl| x.ctx.txid == t.ctx.txid);
                    // a valid chain never reveals a nullifier twice
                    let double = t.nfs.iter().any(|k| chain_spent.contains_key(k) || txs.iter().any(|x: &TxTpl| x.nfs.contains(k)));
                    if ok && !dup && !double {
                        avail.retain(|n| !t.nfs.contains(&(n.pool, n.nf)));
                        ctx.probe("orphan_tx_remined");
                        txs.push(t);
                        continue;
                    }
                }
                let mut spec = TxSpec::default();
                let pools: Vec<Pool> = POOLS.iter().copied().filter(|p| self.chain.pool_active(*p, height)).collect();
                let n_out = r.below(4);
                for _ in 0..n_out {
                    let p = pools[r.below(pools.len() as u64) as usize];
                    let dest = if r.below(100) < self.cfg.own_pct && self.cfg.own_pools.contains(&p) {
                        Dest::Own(r.below(self.cfg.n_accounts as u64) as usize, if r.below(3) == 0 { zip32::Scope::Internal } else { zip32::Scope::External })
                    } else {
                        Dest::Foreign
                    };
                    let value = match r.below(10) {
                        0 => 0,
                        1 => 1 + r.below(5000), // dust (<= marginal fee)
                        2 => 5000,
                        3 => 5001,
                        _ => 10_000 + r.below(5_000_000),
                    };
                    spec.outs.push((p, dest, value));
                }
                if !avail.is_empty() && r.below(100) < self.cfg.spend_pct {
                    let n_sp = 1 + r.below(2);
                    for _ in 0..n_sp {
                        if avail.is_empty() {
                            break;
                        }
                        let i = r.below(avail.len() as u64) as usize;
                        let n = avail.swap_remove(i);
                        if self.chain.pool_active(n.pool, height) {
                            spec.spends.push((n.pool, Some(n.nf)));
                        }
                    }
                }
                if r.below(100) < 25 {
                    let p = pools[r.below(pools.len() as u64) as usize];
                    spec.spends.push((p, None));
                }
                if spec.outs.is_empty() && spec.spends.is_empty() {
                    continue;
                }
                txs.push(self.chain.make_tx(&spec, r));
            }
        }
        self.chain.push_block(txs, r);
        ctx.time("blocks_mined", 1);
        ctx.time("cpu_us_chain_generation", t_gen.elapsed().as_micros() as u64);
    }

    /// Fork the chain at `h` (keep blocks <= h) and record the abandoned branch.
    pub fn fork_at(&mut self, h: u32, ctx: &mut RunCtx) {
        let (mut branch_notes, _) = self.chain.ledger();
        let dropped = self.chain.fork(h);
        if dropped.is_empty() {
            return;
        }
        for b in &dropped {
            for o in &b.outs {
                branch_notes.insert((o.pool, o.nf), o.clone());
            }
        }
        // blocks the wallet had scanned on the abandoned branch: their wallet transactions become orphans
        let scanned_dropped: Vec<u32> = self.scanned.iter().copied().filter(|x| *x > h).collect();
        // tree state of the abandoned branch may survive without any block: a batch's starting frontier stays
        // checkpointed after its blocks were rewound away. The wallet cannot notice such a fork by comparing block
        // hashes; like any un-rewound fork it must be rewound below before scanning the new branch.
        let mut stale_coin = false;
        for c in self.t_coins.iter_mut().filter(|c| c.height > h && c.on_chain) {
            c.on_chain = false;
            if c.state != TState::Unmined {
                stale_coin = true;
            }
        }
        if stale_coin {
            ctx.probe("fork_below_reported_transparent_coin");
        }
        let stale_frontier = self.frontier_starts.iter().any(|x| *x > h) || stale_coin;
        if stale_frontier && scanned_dropped.is_empty() {
            ctx.probe("fork_below_blockless_frontier");
            self.dirty_fork = Some(self.dirty_fork.map(|d| d.min(h)).unwrap_or(h));
        }
        if !scanned_dropped.is_empty() {
            self.dirty_fork = Some(self.dirty_fork.map(|d| d.min(h)).unwrap_or(h));
            for b in &dropped {
                if self.scanned.contains(&b.height) {
                    self.note_orphans_of(b, &branch_notes);
                }
            }
        }
        for x in scanned_dropped {
            self.scanned.remove(&x);
        }
        self.requeued.retain(|x| *x <= h);
        if self.roots_put {
            // the roots the client passed on may describe the abandoned branch; it is told of the reorg, rewinds the wallet
            // to the fork point (which makes the wallet drop what it was given above it) and downloads them again
            self.roots_stale = true;
            self.dirty_fork = Some(self.dirty_fork.map(|d| d.min(h)).unwrap_or(h));
        }
        self.stale = dropped;
        ctx.fault("reorg");
    }

    /// `branch_notes`: own notes (by nullifier) of the branch the block was on.
    fn note_orphans_of(&mut self, b: &SimBlock, branch_notes: &BTreeMap<(Pool, [u8; 32]), OutTruth>) {
        let mut by_tx: BTreeMap<[u8; 32], Orphan> = BTreeMap::new();
        for o in &b.outs {
            by_tx.entry(o.txid).or_insert_with(|| Orphan { txid: o.txid, observed: b.height, outs: vec![], nfs: vec![], spent_rows: vec![] }).outs.push(o.clone());
        }
        for s in &b.spends {
            let e = by_tx.entry(s.txid).or_insert_with(|| Orphan { txid: s.txid, observed: b.height, outs: vec![], nfs: vec![], spent_rows: vec![] });
            e.nfs.push((s.pool, s.nf));
            if let Some(n) = branch_notes.get(&(s.pool, s.nf)) {
                e.spent_rows.push((n.pool, n.txid, n.idx));
            }
        }
        for (_, o) in by_tx {
            self.txlog.entry(o.txid.to_vec()).or_default().push(format!("orphaned@{}", b.height));
            if !self.orphans.iter().any(|x| x.txid == o.txid) {
                self.orphans.push(o);
            }
        }
    }

    // ------------------------------------------------------------ wallet operations

    /// scan_cached_blocks over [from, from+limit) of the current chain (or of `source` overrides).
    pub fn scan(&mut self, from: u32, limit: usize, source: &SimSourceCfg, ctx: &mut RunCtx) -> Result<Result<(u32, u32), String>, Violation> {
        let Some(from_state) = self.chain.chain_state_at(from - 1) else {
            return Ok(Err("no chain state".into()));
        };
        let chain = &self.chain;
        let mut src = SimSource::new(chain);
        src.fail_at = source.fail_at;
        src.fail_in_call = source.fail_in_call;
        src.overrides = source.overrides.clone();
        let net = self.net;
        let t_scan = std::time::Instant::now();
        let res = {
            let mut d = WalletDb::from_connection(&mut self.conn, self.net, self.clock.clone(), &mut self.rng);
            if let Some(r) = self.cfg.retention {
                d.set_anchor_retention_interval(zcash_client_backend::data_api::anchor_retention::AnchorRetentionInterval::custom(std::num::NonZeroU32::new(r).unwrap()));
            }
            catch(|| scan_cached_blocks(&net, &src, &mut d, BlockHeight::from_u32(from), &from_state, limit))
        };
        if src.fired.get() {
            ctx.fault("blocksource_error@k");
        }
        ctx.time("cpu_us_scan_calls", t_scan.elapsed().as_micros() as u64);
        match res {
            Err(m) => Err(Violation::keyed("no_panic", format!("panic:{}", crate::runner::panic_site(&m)), format!("scan_cached_blocks({from},{limit}) panicked: {m}"))),
            Ok(Ok(sum)) => {
                let r = sum.scanned_range();
                let (a, b) = (u32::from(r.start), u32::from(r.end));
                ctx.time("blocks_scanned", (b - a) as u64);
                Ok(Ok((a, b)))
            }
            Ok(Err(e)) => Ok(Err(format!("{e}"))),
        }
    }

    /// Record a successful scan of [a, b) of the current chain in the model.
    pub fn model_scanned(&mut self, a: u32, b: u32, ctx: &mut RunCtx) {
        let (notes, spent) = self.chain.ledger();
        if b > a && a > 0 {
            // the batch's starting frontier is checkpointed at a - 1; it is retained (on the grid) unless it is pruned
            // on insertion, which happens when 100 newer checkpoints exist already (then it is just another instance of
            // what F4 describes: a checkpoint below the tree's 100 newest cannot be established)
            // (counted in the wallet itself: checkpoints at or above the end of this batch existed before it; this
            // only decides which explanation a missing checkpoint gets, never whether it is reported)
            let newer: i64 = ["sapling", "orchard", "ironwood"]
                .iter()
                .map(|t| self.conn.query_row(&format!("SELECT COUNT(*) FROM {t}_tree_checkpoints WHERE checkpoint_id >= ?1"), [b], |r| r.get::<_, i64>(0)).unwrap_or(0))
                .max()
                .unwrap_or(0);
            if newer < 100 {
                self.frontier_starts.insert(a - 1);
            } else {
                ctx.probe("batch_start_frontier_beyond_pruning_budget");
            }
        }
        for t in ["sapling", "orchard", "ironwood"] {
            if let Ok(h) = self.conn.query_row(&format!("SELECT checkpoint_id FROM {t}_tree_checkpoints ORDER BY checkpoint_id DESC LIMIT 1 OFFSET 99"), [], |r| r.get::<_, u32>(0)) {
                self.align_floor = self.align_floor.max(h);
            }
        }
        if b > a && a > 0 {
            // did some pool hold no checkpoint below this batch (other than the batch's own starting frontier)?
            let some_pool_had_none_below = ["sapling", "orchard", "ironwood"].iter().any(|t| {
                let n_all: i64 = self.conn.query_row(&format!("SELECT COUNT(*) FROM {t}_tree_checkpoints"), [], |r| r.get(0)).unwrap_or(0);
                let n_below: i64 = self.conn.query_row(&format!("SELECT COUNT(*) FROM {t}_tree_checkpoints WHERE checkpoint_id < ?1"), [a - 1], |r| r.get(0)).unwrap_or(0);
                let n_above: i64 = self.conn.query_row(&format!("SELECT COUNT(*) FROM {t}_tree_checkpoints WHERE checkpoint_id >= ?1"), [b], |r| r.get(0)).unwrap_or(0);
                n_all > 0 && n_below == 0 && n_above > 0
            });
            if some_pool_had_none_below {
                for h in (a - 1)..b {
                    self.below_min_scanned.insert(h);
                }
                ctx.probe("batch_below_a_trees_lowest_checkpoint");
            }
        }
        if let Some(act) = self.cfg.nu6_3 {
            let step = self.cfg.retention.unwrap_or(144);
            for h in (a..b).filter(|h| *h >= act && *h % step == 0) {
                // the generator's count of checkpoint-bearing blocks above h, or (where the wallet also holds frontier and
                // ensured checkpoints the generator does not count) the wallet's own count of checkpoints above h
                let above = (h + 1..=self.chain.tip()).filter(|x| (self.scanned.contains(x) || (a..b).contains(x)) && self.chain.block(*x).map(|blk| blk.cms.iter().any(|c| !c.is_empty())).unwrap_or(false)).count();
                let in_wallet: i64 = ["sapling", "orchard", "ironwood"]
                    .iter()
                    .map(|t| self.conn.query_row(&format!("SELECT COUNT(*) FROM {t}_tree_checkpoints WHERE checkpoint_id > ?1"), [h], |r| r.get::<_, i64>(0)).unwrap_or(0))
                    .max()
                    .unwrap_or(0);
                if above >= 100 || in_wallet >= 100 {
                    self.late_boundaries.insert(h);
                    ctx.probe("retention_boundary_scanned_beyond_pruning_budget");
                } else {
                    self.late_boundaries.remove(&h);
                }
            }
        }
        for h in a..b {
            if self.requeued.remove(&h) {
                ctx.probe("forced_rescan_done");
            }
            if self.scanned.contains(&h) {
                ctx.probe("rescan_idempotent_hit");
            }
            self.scanned.insert(h);
            self.max_scanned_ever = self.max_scanned_ever.max(h);
            if let Some(blk) = self.chain.block(h) {
                // reach probes
                for s in &blk.spends {
                    if let Some(n) = notes.get(&(s.pool, s.nf)) {
                        if !self.scanned.contains(&n.height) {
                            ctx.probe("spend_scanned_before_receipt");
                        } else if (a..b).contains(&n.height) {
                            ctx.probe("spend_and_receipt_same_batch");
                        }
                    }
                }
                for o in &blk.outs {
                    if let Some(s) = spent.get(&(o.pool, o.nf)) {
                        if self.scanned.contains(&s.height) && !(a..b).contains(&s.height) && s.height > o.height + 100 {
                            ctx.probe("receipt_found_after_spend_beyond_pruning_depth");
                        }
                    }
                }
                if ctx.verbose {
                    for t in &blk.cb.vtx {
                        self.txlog.entry(t.txid.clone()).or_default().push(format!("scanned@{h}"));
                    }
                }
                // a re-mined orphan is no longer an orphan
                let txids: BTreeSet<&Vec<u8>> = blk.cb.vtx.iter().map(|t| &t.txid).collect();
                self.orphans.retain(|o| !txids.contains(&o.txid.to_vec()));
            }
        }
        if b - a > 101 {
            ctx.probe("batch_longer_than_nullifier_retention");
        }
    }

    pub fn update_tip(&mut self, h: u32) -> Result<(), String> {
        let r = {
            let mut d = db!(self);
            d.update_chain_tip(BlockHeight::from_u32(h))
        };
        match r {
            Ok(()) => {
                self.tip_told = Some(h);
                Ok(())
            }
            Err(e) => Err(format!("{e}")),
        }
    }

    /// truncate_to_height; on success updates the model to the height actually returned.
    pub fn truncate(&mut self, h: u32, ctx: &mut RunCtx) -> Result<Result<u32, String>, Violation> {
        let r = {
            let mut d = db!(self);
            catch(|| d.truncate_to_height(BlockHeight::from_u32(h)))
        };
        match r {
            Err(m) => Err(Violation::keyed("no_panic", format!("panic:{}", crate::runner::panic_site(&m)), format!("truncate_to_height({h}) panicked: {m}"))),
            Ok(Err(e)) => Ok(Err(format!("{e}"))),
            Ok(Ok(got)) => {
                let got = u32::from(got);
                if got > h {
                    return Err(Violation::new("truncate_returns_at_most_request", format!("truncate_to_height({h}) returned {got}")));
                }
                if got < h {
                    ctx.probe("truncate_height_lower_than_requested");
                }
                self.model_truncated(got, ctx);
                Ok(Ok(got))
            }
        }
    }

    /// The client reports a transparent coin mined at `h` (new, or one the wallet un-mined in a rewind).
    pub fn put_utxo(&mut self, which: Result<usize, (usize, u64, u32, u64)>, ctx: &mut RunCtx) -> Result<Result<(), String>, Violation> {
        let (txid, idx, acct, value, h) = match which {
            Ok(i) => {
                let c = &self.t_coins[i];
                (c.txid, c.idx, c.acct, c.value, c.height)
            }
            Err((acct, value, h, salt)) => {
                let mut r = SubRng::new(salt);
                (r.bytes32(), (r.next() % 3) as u32, acct, value, h)
            }
        };
        let k = acct_keys(&self.net, acct as u32);
        let Some(tk) = k.ufvk.transparent() else { return Ok(Err("no transparent key".into())) };
        let taddr = tk.derive_external_ivk().map_err(|_| Violation::new("harness_keys", "ivk"))?.default_address().0;
        let outpoint = transparent::bundle::OutPoint::new(txid, idx);
        let txout = transparent::bundle::TxOut::new(Zatoshis::from_u64(value).map_err(|_| Violation::new("harness_value", "value"))?, taddr.script().into());
        let Some(o) = zcash_client_backend::wallet::WalletTransparentOutput::from_parts(outpoint, txout, Some(BlockHeight::from_u32(h)), None, None, None) else { return Ok(Err("parts".into())) };
        let r = {
            let mut d = db!(self);
            catch(|| d.put_received_transparent_utxo(&o))
        };
        match r {
            Err(m) => Err(Violation::keyed("no_panic", format!("panic:{}", crate::runner::panic_site(&m)), format!("put_received_transparent_utxo panicked: {m}"))),
            Ok(Err(e)) => Ok(Err(format!("{e}"))),
            Ok(Ok(_)) => {
                match which {
                    Ok(i) => {
                        self.t_coins[i].state = TState::Mined;
                        ctx.probe("transparent_coin_rediscovered");
                    }
                    Err(_) => self.t_coins.push(TCoin { txid, idx, acct, value, height: h, on_chain: true, state: TState::Mined }),
                }
                Ok(Ok(()))
            }
        }
    }

    /// The client hands the wallet the true roots of every subtree the chain has completed up to the tip it knows
    /// (as a light-wallet server reports them), for one pool.
    pub fn put_subtree_roots(&mut self, pool: Pool, upto: u32, ctx: &mut RunCtx) -> Result<Result<usize, String>, Violation> {
        use zcash_client_backend::data_api::chain::CommitmentTreeRoot;
        use zcash_client_backend::data_api::WalletCommitmentTrees;
        let subs = self.chain.completed_subtrees(pool, upto);
        if subs.is_empty() {
            return Ok(Ok(0));
        }
        let start = subs[0].0;
        let r = {
            let mut d = db!(self);
            catch(|| match pool {
                Pool::Sapling => {
                    let roots: Vec<_> = subs.iter().map(|(_, h, r)| CommitmentTreeRoot::from_parts(BlockHeight::from_u32(*h), Option::from(sapling::Node::from_bytes(*r)).expect("node"))).collect();
                    d.put_sapling_subtree_roots(start, &roots).map_err(|e| format!("{e:?}"))
                }
                Pool::Orchard => {
                    let roots: Vec<_> = subs.iter().map(|(_, h, r)| CommitmentTreeRoot::from_parts(BlockHeight::from_u32(*h), Option::from(orchard::tree::MerkleHashOrchard::from_bytes(r)).expect("node"))).collect();
                    d.put_orchard_subtree_roots(start, &roots).map_err(|e| format!("{e:?}"))
                }
                Pool::Ironwood => {
                    let roots: Vec<_> = subs.iter().map(|(_, h, r)| CommitmentTreeRoot::from_parts(BlockHeight::from_u32(*h), Option::from(orchard::tree::MerkleHashOrchard::from_bytes(r)).expect("node"))).collect();
                    d.put_ironwood_subtree_roots(start, &roots).map_err(|e| format!("{e:?}"))
                }
            })
        };
        match r {
            Err(m) => Err(Violation::keyed("no_panic", format!("panic:{}", crate::runner::panic_site(&m)), format!("put_{}_subtree_roots panicked: {m}", pool.name()))),
            Ok(Err(e)) => Ok(Err(e)),
            Ok(Ok(())) => {
                ctx.probe("true_subtree_roots_inserted");
                self.roots_put = true;
                Ok(Ok(subs.len()))
            }
        }
    }

    /// Steps 1-2 of the documented sync algorithm: a client that passes subtree roots on downloads them again at the
    /// start of every sync session; after a reorg the server's answer has changed.
    pub fn refresh_roots_if_stale(&mut self, ctx: &mut RunCtx) -> Result<(), Violation> {
        if !self.roots_stale {
            return Ok(());
        }
        let upto = self.chain.tip();
        for pool in POOLS {
            if !self.chain.pool_active(pool, upto) {
                continue;
            }
            match self.put_subtree_roots(pool, upto, ctx)? {
                Ok(_) => {}
                Err(e) => return Err(Violation::new("true_subtree_roots_accepted", format!("put_{}_subtree_roots with the new branch's roots failed: {e}", pool.name()))),
            }
        }
        self.roots_stale = false;
        ctx.probe("subtree_roots_refreshed_after_reorg");
        Ok(())
    }

    /// Pointwise view of the stored queue: priority code per height.
    fn queue_pointwise(&self) -> Result<BTreeMap<u32, i64>, String> {
        let q = read_queue(&self.conn)?;
        let mut m = BTreeMap::new();
        for (a, b, p) in q {
            for h in a..b {
                m.insert(h, p);
            }
        }
        Ok(m)
    }

    /// rewind_to_chain_state(target) on the current chain (a forced rescan, not reorg handling): every height above
    /// the target must be queued for scanning again up to the tip the wallet knew, nothing at or below it may change.
    pub fn rewind_chain_state(&mut self, target: u32, reset_all: bool, ctx: &mut RunCtx, owns_queue: bool) -> Result<Result<(), String>, Violation> {
        let Some(cs) = self.chain.chain_state_at(target) else { return Ok(Err("no chain state".into())) };
        let pre = self.queue_pointwise().map_err(|e| Violation::new("queue_readable", e))?;
        let old_max = self.scanned.iter().next_back().copied();
        let was_mined: Vec<usize> = self.t_coins.iter().enumerate().filter(|(_, c)| c.state != TState::Unmined).map(|(i, _)| i).collect();
        let reset: std::collections::HashSet<_> = if reset_all { self.accounts.iter().copied().collect() } else { Default::default() };
        if std::env::var_os("ZSIM_DEBUG").is_some() {
            for t in ["sapling", "orchard", "ironwood"] {
                let ids: Vec<u32> = self.conn.prepare(&format!("SELECT checkpoint_id FROM {t}_tree_checkpoints ORDER BY 1")).unwrap().query_map([], |r| r.get(0)).unwrap().map(|x| x.unwrap()).collect();
                eprintln!("  {t} checkpoints before: {ids:?}");
            }
            let bl: Vec<u32> = self.conn.prepare("SELECT height FROM blocks ORDER BY 1").unwrap().query_map([], |r| r.get(0)).unwrap().map(|x| x.unwrap()).collect();
            eprintln!("  blocks before: {bl:?}; target {target} reset_all {reset_all}");
        }
        let r = {
            let mut d = db!(self);
            catch(|| d.rewind_to_chain_state(cs, reset))
        };
        match r {
            Err(m) => Err(Violation::keyed("no_panic", format!("panic:{}", crate::runner::panic_site(&m)), format!("rewind_to_chain_state({target}) panicked: {m}"))),
            Ok(Err(e)) => Ok(Err(format!("{e:?}"))),
            Ok(Ok(())) => {
                // what the wallet kept: blocks up to db_max
                let db_max: Option<u32> = self.conn.query_row("SELECT MAX(height) FROM blocks", [], |r| r.get(0)).map_err(|e| Violation::new("blocks_readable", e.to_string()))?;
                let n_blocks: i64 = self.conn.query_row("SELECT COUNT(*) FROM blocks", [], |r| r.get(0)).unwrap_or(-1);
                ctx.event(format!("rewind_to_chain_state({target}): wallet keeps {n_blocks} blocks, highest {db_max:?}; model max scanned {old_max:?}"));
                if let Some(om) = old_max {
                    // the wallet may discard scanned data down to its pruning floor, never below it
                    let kept = db_max.unwrap_or(self.cfg.base_height);
                    let floor = om.saturating_sub(99).min(target);
                    if kept < floor && self.scanned.iter().any(|h| *h <= floor && *h > kept) {
                        return viol(ctx, owns_queue, Violation::new("rewind_preserves_data_below_pruning_floor", format!("rewind_to_chain_state({target}): blocks above {kept} are gone although scanned blocks up to {floor} lie at or below both the target and the pruning floor"))).map(|_| Ok(()));
                    }
                    if kept < om {
                        if kept < target {
                            ctx.probe("forced_rescan_discarded_data_below_target");
                        }
                        // tree state may survive above the highest kept block: the starting frontier of a batch whose
                        // blocks are gone stays checkpointed
                        let fs = self.frontier_starts.clone();
                        self.model_truncated(kept, ctx);
                        let tree_max: Option<u32> = self.conn.query_row("SELECT MAX(checkpoint_id) FROM sapling_tree_checkpoints", [], |r| r.get(0)).unwrap_or(None);
                        if let Some(tm) = tree_max {
                            self.frontier_starts.extend(fs.into_iter().filter(|x| *x <= tm));
                        }
                    }
                }
                // the wallet truncated at a height of its choosing at or above `kept`: whether a coin above `kept` that
                // was mined before is un-mined now is not determined by the contract
                if old_max.map(|om| om > target).unwrap_or(false) {
                    let kept = db_max.unwrap_or(self.cfg.base_height);
                    for i in &was_mined {
                        if self.t_coins[*i].height > kept {
                            self.t_coins[*i].state = TState::Unknown;
                        }
                    }
                }
                let again: Vec<u32> = self.scanned.iter().copied().filter(|h| *h > target).collect();
                for h in again {
                    self.requeued.insert(h);
                }
                let post = self.queue_pointwise().map_err(|e| Violation::new("queue_readable", e))?;
                ctx.oracle("forced_rescan_requeues_everything_above_target");
                let t = pre.keys().next_back().copied();
                if let Some(t) = t {
                    for h in (target + 1)..=t {
                        let p = post.get(&h).copied();
                        if p.map(|p| p <= 10).unwrap_or(true) {
                            return viol(ctx, owns_queue, Violation::new("forced_rescan_requeues_everything_above_target", format!("rewind_to_chain_state({target}) with wallet tip {t}: height {h} has queue priority {p:?} afterwards (was {:?})", pre.get(&h)))).map(|_| Ok(()));
                        }
                    }
                    let kept = db_max.unwrap_or(self.cfg.base_height);
                    for (h, p) in pre.iter().filter(|(h, _)| **h <= target.min(kept) && **h > self.cfg.base_height) {
                        if post.get(h) != Some(p) {
                            return viol(ctx, owns_queue, Violation::new("forced_rescan_leaves_queue_below_target", format!("rewind_to_chain_state({target}): height {h} changed priority {p} -> {:?}", post.get(h)))).map(|_| Ok(()));
                        }
                    }
                }
                Ok(Ok(()))
            }
        }
    }

    /// queue_rescans(a..b, priority): pointwise, the documented dominance rule with forced rescans.
    pub fn queue_rescan(&mut self, a: u32, b: u32, prio: ScanPriority, ctx: &mut RunCtx, owns_queue: bool) -> Result<Result<(), String>, Violation> {
        let pre = self.queue_pointwise().map_err(|e| Violation::new("queue_readable", e))?;
        let r = {
            let mut d = db!(self);
            catch(|| d.queue_rescans(nonempty::NonEmpty::singleton(BlockHeight::from_u32(a)..BlockHeight::from_u32(b)), prio))
        };
        match r {
            Err(m) => Err(Violation::keyed("no_panic", format!("panic:{}", crate::runner::panic_site(&m)), format!("queue_rescans({a}..{b}, {prio:?}) panicked: {m}"))),
            Ok(Err(e)) => Ok(Err(format!("{e}"))),
            Ok(Ok(())) => {
                let post = self.queue_pointwise().map_err(|e| Violation::new("queue_readable", e))?;
                let ins = prio_code(prio);
                ctx.oracle("rescan_insertion_pointwise_dominance");
                for (h, p) in &pre {
                    let want = if (a..b).contains(h) {
                        if ins == 60 || ins == 10 || ins > *p { ins } else { *p }
                    } else {
                        *p
                    };
                    if post.get(h) != Some(&want) {
                        return viol(ctx, owns_queue, Violation::new("rescan_insertion_pointwise_dominance", format!("queue_rescans({a}..{b}, {prio:?}): height {h} had priority {p}, expected {want} afterwards, found {:?}", post.get(h)))).map(|_| Ok(()));
                    }
                }
                for h in a..b {
                    if self.scanned.contains(&h) && post.get(&h).map(|p| *p > 10).unwrap_or(false) {
                        self.requeued.insert(h);
                    }
                }
                Ok(Ok(()))
            }
        }
    }

    pub fn model_truncated(&mut self, got: u32, ctx: &mut RunCtx) {
        self.frontier_starts.retain(|x| *x <= got);
        self.requeued.retain(|x| *x <= got);
        self.below_min_scanned.retain(|x| *x <= got);
        for c in self.t_coins.iter_mut().filter(|c| c.height > got) {
            if c.state == TState::Mined {
                ctx.probe("rewind_unmines_transparent_coin");
            }
            c.state = TState::Unmined;
        }
        // blocks above `got` that were scanned on the *current* chain: their wallet transactions become orphans too
        let above: Vec<u32> = self.scanned.iter().copied().filter(|x| *x > got).collect();
        let (notes, _) = self.chain.ledger();
        for x in &above {
            if let Some(b) = self.chain.block(*x).cloned() {
                if !b.outs.is_empty() {
                    ctx.probe("rewind_across_receipt");
                }
                if b.spends.iter().any(|s| notes.contains_key(&(s.pool, s.nf))) {
                    ctx.probe("rewind_across_spend");
                }
                self.note_orphans_of(&b, &notes);
            }
            self.scanned.remove(x);
        }
        if let Some(d) = self.dirty_fork {
            if got <= d {
                self.dirty_fork = None;
            }
        }
        if let Some(t) = self.tip_told {
            // after truncation the wallet treats the returned height as the chain tip
            self.tip_told = Some(t.min(got));
        }
    }
}

#[derive(Clone, Default)]
pub struct SimSourceCfg {
    pub fail_at: Option<usize>,
    pub fail_in_call: Option<usize>,
    pub overrides: BTreeMap<u32, zcash_client_backend::proto::compact_formats::CompactBlock>,
}

// ---------------------------------------------------------------- reading the wallet back

#[derive(Clone, Debug, PartialEq, Eq, PartialOrd, Ord)]
pub struct NoteRow {
    pub pool: Pool,
    pub txid: Vec<u8>,
    pub idx: i64,
    pub acct: usize,
    pub value: i64,
    pub nf: Option<Vec<u8>>,
    pub position: Option<i64>,
    pub mined: Option<u32>,
    pub scope: Option<i64>,
    /// txids (with mined height) of the transactions recorded as spending this note
    pub spent_in: Vec<(Vec<u8>, Option<u32>)>,
}

pub fn read_notes(conn: &Connection, accounts: &[AccountUuid]) -> Result<Vec<NoteRow>, String> {
    let mut out = vec![];
    let mut acct_ids: BTreeMap<i64, usize> = BTreeMap::new();
    {
        let mut st = conn.prepare("SELECT id, uuid FROM accounts").map_err(|e| e.to_string())?;
        let rows = st.query_map([], |r| Ok((r.get::<_, i64>(0)?, r.get::<_, Vec<u8>>(1)?))).map_err(|e| e.to_string())?;
        for row in rows {
            let (id, uuid) = row.map_err(|e| e.to_string())?;
            if let Some(i) = accounts.iter().position(|a| a.expose_uuid().as_bytes()[..] == uuid[..]) {
                acct_ids.insert(id, i);
            }
        }
    }
    for pool in POOLS {
        let p = pool.name();
        let idxcol = if pool == Pool::Sapling { "output_index" } else { "action_index" };
        let sql = format!(
            "SELECT n.id, t.txid, n.{idxcol}, n.account_id, n.value, n.nf, n.commitment_tree_position, t.mined_height, n.recipient_key_scope
             FROM {p}_received_notes n JOIN transactions t ON t.id_tx = n.transaction_id ORDER BY t.txid, n.{idxcol}"
        );
        let mut st = conn.prepare(&sql).map_err(|e| e.to_string())?;
        let rows = st
            .query_map([], |r| {
                Ok((
                    r.get::<_, i64>(0)?,
                    NoteRow {
                        pool,
                        txid: r.get(1)?,
                        idx: r.get(2)?,
                        acct: r.get::<_, i64>(3)? as usize,
                        value: r.get(4)?,
                        nf: r.get(5)?,
                        position: r.get(6)?,
                        mined: r.get(7)?,
                        scope: r.get(8)?,
                        spent_in: vec![],
                    },
                ))
            })
            .map_err(|e| e.to_string())?;
        let mut st2 = conn
            .prepare(&format!("SELECT t.txid, t.mined_height FROM {p}_received_note_spends s JOIN transactions t ON t.id_tx = s.transaction_id WHERE s.{p}_received_note_id = ? ORDER BY t.txid"))
            .map_err(|e| e.to_string())?;
        for row in rows {
            let (id, mut n) = row.map_err(|e| e.to_string())?;
            n.acct = *acct_ids.get(&(n.acct as i64)).unwrap_or(&usize::MAX);
            let sp = st2.query_map([id], |r| Ok((r.get::<_, Vec<u8>>(0)?, r.get::<_, Option<u32>>(1)?))).map_err(|e| e.to_string())?;
            for s in sp {
                n.spent_in.push(s.map_err(|e| e.to_string())?);
            }
            out.push(n);
        }
    }
    Ok(out)
}

pub fn read_queue(conn: &Connection) -> Result<Vec<(u32, u32, i64)>, String> {
    let mut st = conn.prepare("SELECT block_range_start, block_range_end, priority FROM scan_queue ORDER BY block_range_start").map_err(|e| e.to_string())?;
    let rows = st.query_map([], |r| Ok((r.get(0)?, r.get(1)?, r.get(2)?))).map_err(|e| e.to_string())?;
    rows.collect::<Result<Vec<_>, _>>().map_err(|e| e.to_string())
}

pub fn prio_code(p: ScanPriority) -> i64 {
    match p {
        ScanPriority::Ignored => 0,
        ScanPriority::Scanned => 10,
        ScanPriority::Historic => 20,
        ScanPriority::OpenAdjacent => 30,
        ScanPriority::FoundNote => 40,
        ScanPriority::ChainTip => 50,
        ScanPriority::Verify => 60,
    }
}

/// balances[(account, pool)] = total + uneconomic
pub fn read_balances(s: &mut WalletSim) -> Result<Option<(BTreeMap<(usize, Pool), u64>, u32, u32)>, String> {
    let accounts = s.accounts.clone();
    let d = db!(s);
    let sum = d.get_wallet_summary(ConfirmationsPolicy::MIN).map_err(|e| format!("{e}"))?;
    let Some(sum) = sum else { return Ok(None) };
    let mut out = BTreeMap::new();
    for (i, a) in accounts.iter().enumerate() {
        if let Some(b) = sum.account_balances().get(a) {
            for (p, bal) in [(Pool::Sapling, b.sapling_balance()), (Pool::Orchard, b.orchard_balance()), (Pool::Ironwood, b.ironwood_balance())] {
                out.insert((i, p), u64::from(bal.total()) + u64::from(bal.uneconomic_value()));
            }
            let t = b.unshielded_balance();
            s.t_balances.insert(i, u64::from(t.total()) + u64::from(t.uneconomic_value()));
        }
    }
    Ok(Some((out, u32::from(sum.chain_tip_height()), u32::from(sum.fully_scanned_height()))))
}

// ---------------------------------------------------------------- oracles

const EXPIRY_DELTA: u32 = 40;

impl WalletSim {
    /// C01 oracle 1: ledger model (with the live-orphan envelope) + note-level view.
    pub fn check_ledger(&mut self, ctx: &mut RunCtx, owns: bool) -> SimResult {
        let bal = match read_balances(self) {
            Ok(b) => b,
            Err(e) => return viol(ctx, owns, Violation::new("summary_readable", format!("get_wallet_summary failed: {e}"))),
        };
        // ---- transparent coins: the reported unshielded balance is the sum of the coins the wallet was told about
        // in blocks of the current chain, at or below its chain tip, that no rewind has un-mined
        if let (Some((_, tip, _)), None) = (&bal, self.dirty_fork) {
            if !self.t_coins.is_empty() {
                ctx.oracle("transparent_ledger");
                for a in 0..self.accounts.len() {
                    let got = self.t_balances.get(&a).copied().unwrap_or(0);
                    let base: u64 = self.t_coins.iter().filter(|c| c.acct == a && c.state == TState::Mined && c.on_chain && c.height <= *tip).map(|c| c.value).sum();
                    let slack: u64 = self.t_coins.iter().filter(|c| c.acct == a && c.state == TState::Unknown && c.height <= *tip).map(|c| c.value).sum();
                    if got < base || got > base + slack {
                        let detail: Vec<String> = self.t_coins.iter().filter(|c| c.acct == a).map(|c| format!("{}@{} {:?}{}", c.value, c.height, c.state, if c.on_chain { "" } else { " (block abandoned)" })).collect();
                        return viol(ctx, owns, Violation::new("transparent_balance_equals_ledger", format!("account {a}: wallet reports unshielded total+uneconomic = {got}, coins in blocks of the current chain at or below the tip {tip} sum to {base} (+{slack} undetermined); coins: {detail:?}")));
                    }
                }
            }
        }
        let rows = match read_notes(&self.conn, &self.accounts) {
            Ok(r) => r,
            Err(e) => return viol(ctx, owns, Violation::new("notes_readable", e)),
        };
        let (notes, spent) = self.chain.ledger();
        ctx.oracle("ledger_model");
        // ---- note-level view: every model note in a scanned block is present with the right attributes
        let mut by_key: BTreeMap<(Pool, Vec<u8>, i64), &NoteRow> = BTreeMap::new();
        for r in &rows {
            by_key.insert((r.pool, r.txid.clone(), r.idx), r);
        }
        for ((pool, nf), n) in &notes {
            if !self.scanned.contains(&n.height) {
                continue;
            }
            let Some(r) = by_key.get(&(*pool, n.txid.to_vec(), n.idx as i64)) else {
                return viol(ctx, owns, Violation::new("scanned_note_present", format!("{} note of account {} value {} received at height {} (scanned) is missing from the wallet", pool.name(), n.acct, n.value, n.height)));
            };
            let scope_code = if n.scope == zip32::Scope::External { 0 } else { 1 };
            if r.acct != n.acct || r.value != n.value as i64 || r.nf.as_deref() != Some(&nf[..]) || r.mined != Some(n.height) || r.position != Some(n.position as i64) || r.scope != Some(scope_code) {
                return viol(ctx, owns, Violation::new("scanned_note_attributes", format!("{} note at height {} idx {}: wallet has acct {} value {} mined {:?} position {:?} scope {:?} nf_ok {}, chain says acct {} value {} position {} scope {}", pool.name(), n.height, n.idx, r.acct, r.value, r.mined, r.position, r.scope, r.nf.as_deref() == Some(&nf[..]), n.acct, n.value, n.position, scope_code)));
            }
            // spent status
            let model_spent = spent.get(&(*pool, *nf)).filter(|s| self.scanned.contains(&s.height));
            let wallet_spent_mined: Vec<_> = r.spent_in.iter().filter(|(_, m)| m.is_some()).collect();
            match model_spent {
                Some(s) => {
                    if !wallet_spent_mined.iter().any(|(t, m)| t[..] == s.txid[..] && *m == Some(s.height)) {
                        return viol(ctx, owns, Violation::new("scanned_spend_recorded", format!("{} note received at {} was spent at scanned height {} but the wallet does not record that spend (recorded: {} spends)", pool.name(), n.height, s.height, r.spent_in.len())));
                    }
                }
                None => {
                    let stale_ok = self.dirty_fork.map(|d| wallet_spent_mined.iter().all(|(_, m)| m.map(|m| m > d).unwrap_or(true))).unwrap_or(false);
                    if !wallet_spent_mined.is_empty() && !stale_ok {
                        return viol(ctx, owns, Violation::new("no_phantom_spend", format!("{} note received at {} is recorded as spent in a mined transaction at {:?} that the scanned chain does not contain", pool.name(), n.height, wallet_spent_mined[0].1)));
                    }
                }
            }
        }
        // ---- no mined note that the chain does not have
        for r in &rows {
            if let Some(m) = r.mined {
                let ok = r.nf.as_ref().map(|nf| {
                    let mut k = [0u8; 32];
                    k.copy_from_slice(nf);
                    notes.get(&(r.pool, k)).map(|n| n.height == m && n.txid[..] == r.txid[..]).unwrap_or(false)
                });
                if self.dirty_fork.map(|d| m > d).unwrap_or(false) {
                    continue; // still holds the abandoned branch until it rewinds
                }
                if ok != Some(true) {
                    return viol(ctx, owns, Violation::new("no_phantom_note", format!("wallet holds a {} note mined at {m} (value {}) that the current chain does not contain there", r.pool.name(), r.value)));
                }
                if !self.scanned.contains(&m) {
                    return viol(ctx, owns, Violation::new("no_phantom_note", format!("wallet holds a {} note mined at {m}, a height the model says is not scanned", r.pool.name())));
                }
            }
        }
        // ---- balances
        let Some((bal, tip, _fs)) = bal else { return Ok(()) };
        let target = tip + 1;
        // an orphan is live while within the expiry guess of the height at which it was seen, and in any case
        // for as long as the wallet has not rewound below it (it still holds it as mined)
        let dirty = self.dirty_fork;
        let live: Vec<&Orphan> = self.orphans.iter().filter(|o| o.observed + EXPIRY_DELTA >= target || dirty.map(|d| o.observed > d).unwrap_or(false)).collect();
        if !live.is_empty() {
            ctx.probe("orphan_tx_live");
        } else if !self.orphans.is_empty() {
            ctx.probe("orphan_tx_expired");
        }
        for a in 0..self.cfg.n_accounts {
            for pool in POOLS {
                let mut base: u64 = 0;
                let mut lower_cut: u64 = 0;
                for ((p, nf), n) in &notes {
                    if *p != pool || n.acct != a || !self.scanned.contains(&n.height) || n.height >= target {
                        continue;
                    }
                    let sp = spent.get(&(*p, *nf)).filter(|s| self.scanned.contains(&s.height) && s.height < target);
                    if sp.is_some() {
                        continue;
                    }
                    base += n.value;
                    if live.iter().any(|o| o.nfs.contains(&(*p, *nf)) || o.spent_rows.contains(&(*p, n.txid, n.idx))) {
                        lower_cut += n.value;
                    }
                }
                let upper_add: u64 = live.iter().flat_map(|o| o.outs.iter()).filter(|o| o.pool == pool && o.acct == a).map(|o| o.value).sum();
                let got = bal.get(&(a, pool)).copied().unwrap_or(0);
                let (lo, hi) = (base - lower_cut, base + upper_add);
                if got < lo || got > hi {
                    // diagnosis: unmined spends the wallet holds against notes the model counts
                    let mut diag = vec![];
                    for ((p, nf), n) in &notes {
                        if *p != pool || n.acct != a || !self.scanned.contains(&n.height) {
                            continue;
                        }
                        if let Some(r) = by_key.get(&(*p, n.txid.to_vec(), n.idx as i64)) {
                            for (t, m) in r.spent_in.iter().filter(|(_, m)| m.is_none()) {
                                let o = self.orphans.iter().find(|o| o.txid[..] == t[..]);
                                diag.push(format!("note@{} v={} unmined-spend tx {} orphan_observed={:?} model_spent={}", n.height, n.value, hex::encode(&t[..4]), o.map(|o| o.observed), spent.contains_key(&(*p, *nf))));
                                let _ = m;
                            }
                        }
                    }
                    for r in rows.iter().filter(|r| r.pool == pool && r.acct == a && r.mined.is_none()) {
                        let o = self.orphans.iter().find(|o| o.txid[..] == r.txid[..]);
                        diag.push(format!("unmined note v={} tx {} orphan_observed={:?}", r.value, hex::encode(&r.txid[..4]), o.map(|o| o.observed)));
                    }
                    ctx.event(format!("diagnosis: {:?}", diag));
                    if ctx.verbose {
                        for (t, l) in &self.txlog {
                            if l.iter().any(|x| x.starts_with("orphaned")) {
                                ctx.event(format!("txlog {}: {:?}", hex::encode(&t[..4]), l));
                            }
                        }
                    }
                    let d = if lo == hi {
                        format!("account {a} {}: wallet reports total+uneconomic = {got}, ledger of scanned unspent notes = {base} (tip {tip}, {} blocks scanned, {} orphans all expired)", pool.name(), self.scanned.len(), self.orphans.len())
                    } else {
                        format!("account {a} {}: wallet reports {got}, outside the envelope [{lo}, {hi}] allowed by {} live orphaned transactions (tip {tip})", pool.name(), live.len())
                    };
                    return viol(ctx, owns, Violation::new("balance_equals_ledger", d));
                }
            }
        }
        Ok(())
    }

    /// C15: the stored queue is a sorted, gap-free, non-overlapping partition with merged neighbours,
    /// agrees with suggest_scan_ranges, and marks exactly the model's scanned heights as Scanned.
    pub fn check_queue(&mut self, ctx: &mut RunCtx, owns: bool) -> SimResult {
        let q = match read_queue(&self.conn) {
            Ok(q) => q,
            Err(e) => return viol(ctx, owns, Violation::new("queue_readable", e)),
        };
        ctx.oracle("queue_partition");
        for w in q.windows(2) {
            let (a, b) = (&w[0], &w[1]);
            if a.1 != b.0 {
                return viol(ctx, owns, Violation::new("queue_gap_free_non_overlapping", format!("adjacent queue entries {}..{} and {}..{} leave a gap or overlap", a.0, a.1, b.0, b.1)));
            }
            if a.2 == b.2 {
                return viol(ctx, owns, Violation::new("queue_adjacent_merged", format!("adjacent queue entries {}..{} and {}..{} have the same priority {}", a.0, a.1, b.0, b.1, a.2)));
            }
        }
        for e in &q {
            if e.0 >= e.1 {
                return viol(ctx, owns, Violation::new("queue_ranges_nonempty", format!("queue entry {}..{} is empty or inverted", e.0, e.1)));
            }
        }
        // scanned <-> Scanned
        for e in &q {
            for h in e.0..e.1 {
                let is_scanned = e.2 == 10;
                let model = self.scanned.contains(&h) && !self.requeued.contains(&h);
                if h > self.cfg.base_height && is_scanned != model && self.dirty_fork.is_none() {
                    return viol(ctx, owns, Violation::new("scanned_iff_marked_scanned", format!("height {h}: queue priority {} but model scanned = {model}", e.2)));
                }
            }
        }
        // every height between the birthday and the tip the queue knows is either scanned or queued for scanning
        if self.dirty_fork.is_none() {
            if let Some(end) = q.last().map(|e| e.1) {
                ctx.oracle("unscanned_heights_are_queued");
                for h in (self.cfg.base_height + 1)..end {
                    if self.scanned.contains(&h) {
                        continue;
                    }
                    let p = q.iter().find(|e| (e.0..e.1).contains(&h)).map(|e| e.2);
                    if p.map(|p| p <= 10).unwrap_or(true) {
                        return viol(ctx, owns, Violation::new("unscanned_heights_are_queued", format!("height {h} (birthday {}, queue reaches {end}) holds no scanned block and has queue priority {p:?}: nothing will ever suggest scanning it", self.cfg.base_height + 1)));
                    }
                }
            }
        }
        for h in &self.scanned {
            if !q.iter().any(|e| (e.0..e.1).contains(h)) {
                return viol(ctx, owns, Violation::new("scanned_iff_marked_scanned", format!("height {h} was scanned but lies outside the queue")));
            }
        }
        // suggest_scan_ranges = entries above Scanned, sorted by priority descending
        let sug = {
            let d = db!(self);
            d.suggest_scan_ranges().map_err(|e| format!("{e}"))
        };
        match sug {
            Err(e) => return viol(ctx, owns, Violation::new("suggest_scan_ranges_succeeds", e)),
            Ok(sug) => {
                let mut exp: Vec<(u32, u32, i64)> = q.iter().copied().filter(|e| e.2 > 10).collect();
                exp.sort_by(|a, b| b.2.cmp(&a.2).then(b.1.cmp(&a.1)));
                let got: Vec<(u32, u32, i64)> = sug.iter().map(|r| (u32::from(r.block_range().start), u32::from(r.block_range().end), prio_code(r.priority()))).collect();
                let mut g2 = got.clone();
                g2.sort();
                let mut e2 = exp.clone();
                e2.sort();
                if g2 != e2 {
                    return viol(ctx, owns, Violation::new("suggestions_match_queue", format!("suggest_scan_ranges {:?} vs queue entries above Scanned {:?}", got, exp)));
                }
                for w in got.windows(2) {
                    if w[0].2 < w[1].2 {
                        return viol(ctx, owns, Violation::new("suggestions_priority_ordered", format!("{:?}", got)));
                    }
                }
            }
        }
        Ok(())
    }
}

/// Report through the property that owns the oracle; otherwise record a cross-property observation.
pub fn viol(ctx: &mut RunCtx, owns: bool, v: Violation) -> SimResult {
    if owns {
        ctx.report(v)
    } else {
        ctx.event(format!("cross-property observation [{}] {}", v.oracle, v.detail));
        *ctx.probes.entry(format!("cross_property_observation:{}", v.oracle)).or_default() += 1;
        Ok(())
    }
}

// ---------------------------------------------------------------- tree oracle (C06)

pub struct TreeView {
    /// checkpoint id -> (position or None for empty tree)
    pub checkpoints: Vec<(u32, Option<u64>)>,
}

macro_rules! with_tree {
    ($db:expr, $pool:expr, |$t:ident| $body:expr) => {{
        match $pool {
            Pool::Sapling => $db.with_sapling_tree_mut::<_, _, SqliteClientError>(|$t| $body).map(Some),
            Pool::Orchard => $db.with_orchard_tree_mut::<_, _, SqliteClientError>(|$t| $body).map(Some),
            Pool::Ironwood => $db.with_ironwood_tree_mut::<_, _, SqliteClientError>(|$t| $body),
        }
    }};
}

impl WalletSim {
    pub fn checkpoints(&mut self, pool: Pool) -> Result<Vec<(u32, Option<u64>)>, String> {
        let mut d = db!(self);
        let r = with_tree!(d, pool, |t| {
            let mut v = vec![];
            t.store_mut()
                .with_checkpoints(100_000, |id, cp| {
                    v.push((u32::from(*id), cp.position().map(u64::from)));
                    Ok(())
                })
                .map_err(|e| SqliteClientError::from(shardtree::error::ShardTreeError::Storage(e)))?;
            Ok(v)
        });
        r.map(|o| o.unwrap_or_default()).map_err(|e| format!("{e}"))
    }

    /// Root at checkpoint `h` as bytes: Ok(None) = not computable yet.
    pub fn root_at(&mut self, pool: Pool, h: u32) -> Result<Option<[u8; 32]>, String> {
        let mut d = db!(self);
        let id = BlockHeight::from_u32(h);
        let r = match pool {
            Pool::Sapling => d.with_sapling_tree_mut::<_, _, SqliteClientError>(|t| Ok(t.root_at_checkpoint_id(&id))).map(|r| r.map(|o| o.map(|n| n.to_bytes()))),
            Pool::Orchard => d.with_orchard_tree_mut::<_, _, SqliteClientError>(|t| Ok(t.root_at_checkpoint_id(&id))).map(|r| r.map(|o| o.map(|n| n.to_bytes()))),
            Pool::Ironwood => d
                .with_ironwood_tree_mut::<_, _, SqliteClientError>(|t| Ok(t.root_at_checkpoint_id(&id)))
                .map(|o| match o {
                    Some(r) => r.map(|o| o.map(|n| n.to_bytes())),
                    None => Ok(None),
                }),
        };
        match r {
            Err(e) => Err(format!("{e}")),
            Ok(Err(e)) => {
                // "not computable" (missing data) is reported by shardtree as a Query error
                let s = format!("{e:?}");
                if s.contains("Query") || s.contains("TreeIncomplete") || s.contains("CheckpointPruned") || s.contains("NotContained") {
                    self.last_root_err = Some(s);
                    Ok(None)
                } else {
                    Err(s)
                }
            }
            Ok(Ok(x)) => Ok(x),
        }
    }

    /// Root recomputed from the witness of the leaf at `position` as of checkpoint `h`.
    pub fn witness_root(&mut self, pool: Pool, position: u64, cm: &[u8; 32], h: u32) -> Result<Option<[u8; 32]>, String> {
        let mut d = db!(self);
        let id = BlockHeight::from_u32(h);
        let pos = incrementalmerkletree::Position::from(position);
        let fmt = |e: &dyn std::fmt::Debug| format!("{e:?}");
        match pool {
            Pool::Sapling => {
                let leaf = sapling::Node::from_cmu(&Option::from(sapling::note::ExtractedNoteCommitment::from_bytes(cm)).unwrap());
                let r = d.with_sapling_tree_mut::<_, _, SqliteClientError>(|t| Ok(t.witness_at_checkpoint_id(pos, &id))).map_err(|e| format!("{e}"))?;
                match r {
                    Ok(Some(p)) => Ok(Some(p.root(leaf).to_bytes())),
                    Ok(None) => Ok(None),
                    Err(e) => Err(fmt(&e)),
                }
            }
            _ => {
                let leaf = orchard::tree::MerkleHashOrchard::from_cmx(&Option::from(orchard::note::ExtractedNoteCommitment::from_bytes(cm)).unwrap());
                let r = if pool == Pool::Orchard {
                    d.with_orchard_tree_mut::<_, _, SqliteClientError>(|t| Ok(t.witness_at_checkpoint_id(pos, &id))).map_err(|e| format!("{e}"))?
                } else {
                    match d.with_ironwood_tree_mut::<_, _, SqliteClientError>(|t| Ok(t.witness_at_checkpoint_id(pos, &id))).map_err(|e| format!("{e}"))? {
                        Some(r) => r,
                        None => return Ok(None),
                    }
                };
                match r {
                    Ok(Some(p)) => Ok(Some(p.root(leaf).to_bytes())),
                    Ok(None) => Ok(None),
                    Err(e) => Err(fmt(&e)),
                }
            }
        }
    }

    /// True root of `pool` after block `h` of the current chain.
    pub fn true_root(&mut self, pool: Pool, h: u32) -> Option<[u8; 32]> {
        let key = (pool, self.chain.hash_at(h)?);
        if let Some(r) = self.root_cache.get(&key) {
            return Some(*r);
        }
        let r = self.chain.frontiers_at(h).map(|f| f.root_bytes(pool))?;
        self.root_cache.insert(key, r);
        Some(r)
    }

    /// Is every block up to `h` that could hold commitments of the (partial) shards needed for the
    /// root at `h` scanned?  Conservative: everything from the birthday to `h`.
    pub fn prefix_scanned(&self, h: u32) -> bool {
        (self.cfg.base_height + 1..=h).all(|x| self.scanned.contains(&x))
    }

    /// C06 oracles (1), (3), (5) over a sample (or all) of the retained checkpoints; (2) witnesses for
    /// unspent notes at the newest checkpoint when everything below is scanned.
    pub fn check_trees(&mut self, ctx: &mut RunCtx, owns: bool, full: bool, r: &mut SubRng) -> SimResult {
        let mut sets: Vec<(Pool, Vec<(u32, Option<u64>)>)> = vec![];
        for pool in POOLS {
            if !self.chain.pool_active(pool, self.chain.tip().max(self.cfg.base_height + 1)) && pool == Pool::Ironwood && self.cfg.nu6_3.is_none() {
                // the wallet still maintains an (empty) Ironwood tree; nothing to compare
            }
            match self.checkpoints(pool) {
                Ok(c) => sets.push((pool, c)),
                Err(e) => return viol(ctx, owns, Violation::new("checkpoints_readable", format!("{}: {e}", pool.name()))),
            }
        }
        if ctx.verbose { ctx.event("trees: checkpoints listed"); }
        ctx.oracle("tree_roots");
        let max_scanned = self.scanned.iter().next_back().copied();
        for (pool, cps) in &sets {
            // (5) nothing above the highest scanned height / truncation point
            // (the starting frontier of a batch stays checkpointed when the batch's blocks are rewound away)
            let top = max_scanned.max(Some(self.cfg.base_height)).max(self.frontier_starts.iter().next_back().copied());
            if let Some((id, _)) = cps.iter().find(|(id, _)| Some(*id) > top) {
                if self.dirty_fork.is_none() {
                    return viol(ctx, owns, Violation::new("no_checkpoint_above_scanned_tip", format!("{}: checkpoint at {id} above the highest scanned height {:?}", pool.name(), max_scanned)));
                }
            }
            // tree size recorded by the checkpoint equals the chain's tree size at that height
            let mut idxs: Vec<usize> = (0..cps.len()).collect();
            if !full && idxs.len() > 4 {
                let mut pick = vec![0, idxs.len() - 1];
                for _ in 0..2 {
                    pick.push(r.below(idxs.len() as u64) as usize);
                }
                pick.sort();
                pick.dedup();
                idxs = pick;
            }
            let (rstep, ract) = (self.cfg.nu6_3.map(|_| self.cfg.retention.unwrap_or(144)), self.cfg.nu6_3);
            let on_grid = |h: u32| matches!((rstep, ract), (Some(st), Some(a)) if h >= a && h % st == 0);
            let prunable_desc: Vec<u32> = cps.iter().rev().map(|x| x.0).filter(|h| !on_grid(*h)).collect();
            let budget_floor = prunable_desc.get(99).copied().unwrap_or(0);
            for i in idxs {
                let (id, pos) = cps[i];
                if id <= self.cfg.base_height && id != self.cfg.base_height {
                    continue;
                }
                if self.dirty_fork.map(|d| id > d).unwrap_or(false) {
                    continue; // checkpoints of the abandoned branch until the wallet rewinds
                }
                let Some(f) = self.chain.frontiers_at(id) else { continue };
                let true_size = f.size(*pool);
                let cp_size = pos.map(|p| p + 1).unwrap_or(0);
                if cp_size != true_size {
                    return viol(ctx, owns, Violation::new("checkpoint_position_matches_chain", format!("{} checkpoint {id}: tree size {cp_size}, chain has {true_size}", pool.name())));
                }
                match self.root_at(*pool, id) {
                    Err(e) => return viol(ctx, owns, Violation::new("root_query_succeeds", format!("{} root at {id}: {e}", pool.name()))),
                    Ok(None) => {
                        // checkpoints older than the 100 newest prunable ones await lazy pruning; their tree data may be gone
                        // ... and so may the data under a grid boundary that was scanned only after the pool had moved
                        // its 100 prunable checkpoints past it (the checkpoint is kept, the leaves it needs were pruned
                        // with the batch's own expired checkpoints; see F4 in DESIGN.md)
                        if on_grid(id) && id < budget_floor && self.late_boundaries.contains(&id) {
                            ctx.probe("late_scanned_boundary_root_not_computable");
                        }
                        if self.prefix_scanned(id) && (id >= budget_floor || (on_grid(id) && !self.late_boundaries.contains(&id))) {
                            let why = self.last_root_err.clone().unwrap_or_default();
                            return viol(ctx, owns, Violation::new("root_computable_when_scanned", format!("{} root at checkpoint {id} is not computable although every block from the birthday to {id} is scanned ({why})", pool.name())));
                        }
                        ctx.shape("root_incomplete");
                    }
                    Ok(Some(root)) => {
                        ctx.oracle_n("root_compared", 1);
                        if Some(root) != self.true_root(*pool, id) {
                            if std::env::var_os("ZSIM_DEBUG").is_some() {
                                let t = pool.name();
                                let rows: Vec<(i64, Option<u32>, bool, i64)> = self.conn.prepare(&format!("SELECT shard_index, subtree_end_height, root_hash IS NOT NULL, length(shard_data) FROM {t}_tree_shards ORDER BY 1")).unwrap().query_map([], |r| Ok((r.get(0)?, r.get(1)?, r.get(2)?, r.get(3)?))).unwrap().map(|x| x.unwrap()).collect();
                                eprintln!("  {t} shards: {rows:?}");
                                eprintln!("  true subtrees now: {:?}", self.chain.completed_subtrees(*pool, self.chain.tip()).iter().map(|(i, h, r)| (*i, *h, hex::encode(&r[..4]))).collect::<Vec<_>>());
                                let rh: Vec<(i64, Option<Vec<u8>>)> = self.conn.prepare(&format!("SELECT shard_index, root_hash FROM {t}_tree_shards ORDER BY 1")).unwrap().query_map([], |r| Ok((r.get(0)?, r.get(1)?))).unwrap().map(|x| x.unwrap()).collect();
                                eprintln!("  stored shard roots: {:?}", rh.iter().map(|(i, r)| (*i, r.as_ref().map(|x| hex::encode(&x[..4])))).collect::<Vec<_>>());
                            }
                            return viol(ctx, owns, Violation::new("root_at_checkpoint_equals_chain", format!("{} root at checkpoint {id} differs from the true root of the chain (tree size {true_size})", pool.name())));
                        }
                    }
                }
            }
        }
        if ctx.verbose { ctx.event("trees: roots done"); }
        // (3) same checkpoint heights in all active pools at/above the newest of the oldest checkpoints
        let active: Vec<&(Pool, Vec<(u32, Option<u64>)>)> = sets.iter().filter(|(p, c)| !c.is_empty() && (*p != Pool::Ironwood || self.cfg.nu6_3.is_some())).collect();
        if active.len() >= 2 && self.dirty_fork.is_none() {
            // Checkpoints on the retention grid are exempt from pruning (they are compared by oracle 4);
            // the others are pruned lazily and per pool, so the comparison starts at the newest of the
            // pools' oldest *prunable* checkpoints.
            // (with NU6.3 active the wallet always retains a grid: the configured interval, or ZIP 318's 144 blocks)
            let (step, act) = (self.cfg.nu6_3.map(|_| self.cfg.retention.unwrap_or(144)), self.cfg.nu6_3);
            let exempt = |h: u32| matches!((step, act), (Some(st), Some(a)) if h >= a && h % st == 0);
            let prunable = |c: &Vec<(u32, Option<u64>)>| -> BTreeSet<u32> { c.iter().map(|x| x.0).filter(|h| !exempt(*h)).collect() };
            // only the 100 newest prunable checkpoints of a pool are stable; older ones await lazy pruning
            let floor = active.iter().filter_map(|(_, c)| prunable(c).iter().rev().take(100).last().copied()).max().unwrap_or(0).max(self.align_floor + 1);
            let s0: BTreeSet<u32> = prunable(&active[0].1).into_iter().filter(|x| *x >= floor && !self.below_min_scanned.contains(x)).collect();
            for (p, c) in active.iter().skip(1) {
                let s: BTreeSet<u32> = prunable(c).into_iter().filter(|x| *x >= floor && !self.below_min_scanned.contains(x)).collect();
                if s != s0 {
                    let diff: Vec<u32> = s.symmetric_difference(&s0).copied().take(6).collect();
                    let summary: Vec<String> = active.iter().map(|(p, c)| format!("{}: {} checkpoints {}..{}", p.name(), c.len(), c.first().map(|x| x.0).unwrap_or(0), c.last().map(|x| x.0).unwrap_or(0))).collect();
                    return viol(ctx, owns, Violation::new("pools_checkpointed_at_same_heights", format!("{} vs {}: checkpoint heights differ at {:?} (comparison floor {floor}; {:?})", p.name(), active[0].0.name(), diff, summary)));
                }
            }
            if active.iter().any(|(_, c)| c.len() > 100) {
                ctx.probe("checkpoints_over_100");
            }
        }
        // (4) retention grid
        if let (Some(step), Some(act)) = (self.cfg.nu6_3.map(|_| self.cfg.retention.unwrap_or(144)), self.cfg.nu6_3) {
            if self.dirty_fork.is_none() {
                for (pool, cps) in &sets {
                    let ids: BTreeSet<u32> = cps.iter().map(|x| x.0).collect();
                    for h in self.scanned.iter().copied().filter(|h| *h >= act && *h % step == 0) {
                        ctx.oracle("retained_boundary_present");
                        if !ids.contains(&h) {
                            let newer = ids.iter().filter(|x| **x > h).count();
                            let empty_here = self.chain.block(h).map(|b| b.cms[pool.i()].is_empty()).unwrap_or(true);
                            // F4 explains a missing checkpoint only where nothing but the late scan of the (empty) boundary
                            // block could have created it; a batch that *started* right above the boundary inserted and
                            // retained its starting frontier there, whatever was pruned since
                            let key = if self.late_boundaries.contains(&h) && empty_here && !self.frontier_starts.contains(&h) {
                                "retention_boundary_checkpointed:boundary_block_without_commitments_in_this_pool_scanned_after_100_newer_checkpoints"
                            } else {
                                "retention_boundary_checkpointed"
                            };
                            viol(ctx, owns, Violation::keyed("retention_boundary_checkpointed", key, format!("{}: scanned grid boundary {h} (interval {step}) has no checkpoint; {newer} newer checkpoints exist; block {h} has {} commitments in this pool", pool.name(), self.chain.block(h).map(|b| b.cms[pool.i()].len()).unwrap_or(0))))?;
                            continue;
                        }
                        if ids.iter().filter(|x| **x > h).count() > 100 {
                            ctx.probe("retained_boundary_survived_pruning");
                        }
                        if let Some(b) = self.chain.block(h) {
                            if b.cms.iter().all(|c| c.is_empty()) {
                                ctx.probe("checkpoint_on_empty_boundary_block");
                            }
                        }
                    }
                }
            }
        }
        if ctx.verbose { ctx.event("trees: sets/retention done"); }
        // (2) witnesses of unspent scanned notes at the newest checkpoint
        if self.dirty_fork.is_none() {
            let (notes, spent) = self.chain.ledger();
            for (pool, cps) in &sets {
                let Some((cp, _)) = cps.last().copied() else { continue };
                if !self.prefix_scanned(cp) {
                    continue;
                }
                let mine: Vec<&OutTruth> = notes.iter().filter(|((p, nf), n)| p == pool && self.scanned.contains(&n.height) && n.height <= cp && !spent.contains_key(&(*p, *nf))).map(|(_, n)| n).collect();
                let sample: Vec<&OutTruth> = if full || mine.len() <= 1 { mine } else { (0..1).map(|_| mine[r.below(mine.len() as u64) as usize]).collect() };
                for n in sample {
                    let blk = self.chain.block(n.height).unwrap();
                    let base = self.chain.frontiers_at(n.height - 1).unwrap().size(*pool);
                    let cm = blk.cms[pool.i()][(n.position - base) as usize];
                    ctx.oracle("witness_verifies");
                    match self.witness_root(*pool, n.position, &cm, cp) {
                        Err(e) => return viol(ctx, owns, Violation::new("witness_computable_when_scanned", format!("{} note at position {} (height {}), checkpoint {cp}: {e}", pool.name(), n.position, n.height))),
                        Ok(None) => return viol(ctx, owns, Violation::new("witness_computable_when_scanned", format!("{} note at position {} (height {}): no witness at checkpoint {cp} although everything below is scanned", pool.name(), n.position, n.height))),
                        Ok(Some(root)) => {
                            if Some(root) != self.true_root(*pool, cp) {
                                return viol(ctx, owns, Violation::new("witness_verifies_against_true_root", format!("{} note at position {}: Merkle path at checkpoint {cp} does not recompute the chain's root", pool.name(), n.position)));
                            }
                        }
                    }
                }
            }
        }
        Ok(())
    }
}

// ---------------------------------------------------------------- the honest sync client (C15 liveness, C01 differential)

impl WalletSim {
    /// One iteration of the documented sync loop. Returns Ok(true) when there is nothing left to do.
    pub fn sync_step(&mut self, limit: usize, from_end: bool, ctx: &mut RunCtx) -> Result<bool, Violation> {
        // 1. reorg detection: rewind until the wallet's highest block is on the chain
        for _ in 0..40 {
            let mh = {
                let d = db!(self);
                d.get_max_height_hash().map_err(|e| Violation::new("max_height_hash_readable", format!("{e}")))?
            };
            match mh {
                Some((h, hash)) if u32::from(h) > self.cfg.base_height => {
                    let h = u32::from(h);
                    if self.chain.hash_at(h) == Some(hash.0) {
                        break;
                    }
                    ctx.event(format!("sync: block {h} not on chain, rewinding"));
                    let target = h.saturating_sub(1).max(self.cfg.base_height);
                    match self.truncate(target, ctx)? {
                        Ok(_) => {}
                        Err(e) => {
                            ctx.event(format!("sync: truncate_to_height({target}) refused: {e}"));
                            return Err(Violation::new("rewind_within_pruning_depth_succeeds", format!("truncate_to_height({target}) failed during reorg handling: {e}")));
                        }
                    }
                }
                _ => break,
            }
        }
        // 1b. a fork the wallet cannot see by comparing block hashes (it holds no block above the fork point, only a
        // reported transparent coin or a batch's starting frontier): the client, told of the reorg by its server,
        // rewinds to the fork point
        if let Some(d) = self.dirty_fork {
            ctx.event(format!("sync: reorg reported at {d}, rewinding"));
            match self.truncate(d.max(self.cfg.base_height), ctx)? {
                Ok(_) => {}
                Err(e) => return Err(Violation::new("rewind_within_pruning_depth_succeeds", format!("truncate_to_height({d}) failed during reorg handling: {e}"))),
            }
        }
        // 1c. subtree roots are downloaded at the start of a sync session, not at every iteration of its loop: a reorg
        // met in mid-session is handled by the rewind alone (a third of the iterations start a session)
        if ctx.seq % 3 == 0 {
            self.refresh_roots_if_stale(ctx)?;
        }
        // 2. tell the wallet the tip
        let tip = self.chain.tip();
        if self.tip_told != Some(tip) {
            if let Err(e) = self.update_tip(tip) {
                return Err(Violation::new("update_chain_tip_succeeds", e));
            }
        }
        // 3. first suggestion
        let sug = {
            let d = db!(self);
            d.suggest_scan_ranges().map_err(|e| Violation::new("suggest_scan_ranges_succeeds", format!("{e}")))?
        };
        let Some(first) = sug.first() else { return Ok(true) };
        let (a, b) = (u32::from(first.block_range().start), u32::from(first.block_range().end).min(tip + 1));
        if a >= b {
            return Ok(true);
        }
        let n = (b - a).min(limit as u32);
        let from = if from_end && first.priority() != ScanPriority::Verify { b - n } else { a };
        ctx.event(format!("sync: scan {from}..{} of suggested {}..{} {:?}", from + n, a, b, first.priority()));
        match self.scan(from, n as usize, &SimSourceCfg::default(), ctx)? {
            Ok((x, y)) => {
                self.model_scanned(x, y, ctx);
                Ok(false)
            }
            Err(e) => {
                // continuity error: rewind below and retry next time
                ctx.event(format!("sync: scan failed: {e}"));
                let target = from.saturating_sub(2).max(self.cfg.base_height);
                match self.truncate(target, ctx)? {
                    Ok(_) => Ok(false),
                    Err(e2) => Err(Violation::new("sync_recovers_from_scan_error", format!("scan of {from}..{} failed ({e}) and the rewind to {target} failed too ({e2})", from + n))),
                }
            }
        }
    }

    /// Drive the sync client to completion within the protocol bound.
    pub fn sync_to_completion(&mut self, ch: &mut Choices, ctx: &mut RunCtx, owns_liveness: bool) -> Result<bool, Violation> {
        let tip = self.chain.tip();
        let blocks = (tip - self.cfg.base_height) as usize;
        let limit = 4 + ch.below("sync.limit", 60) as usize;
        let ranges = read_queue(&self.conn).map(|q| q.len()).unwrap_or(0);
        let bound = blocks / limit + blocks / 4 + ranges + 24;
        let mut r = ch.fork_rng("sync.ends");
        for i in 0..bound {
            let done = self.sync_step(limit, r.below(3) == 0, ctx)?;
            if done {
                ctx.time("sync_iterations", i as u64);
                return Ok(true);
            }
        }
        let v = Violation::new("sync_terminates_within_bound", format!("honest sync client did not finish within {bound} iterations ({blocks} blocks, limit {limit}, {ranges} queue ranges at start); scanned {} blocks", self.scanned.len()));
        viol(ctx, owns_liveness, v)?;
        Ok(false)
    }

    /// C01 oracle 2: a fresh wallet scanning the same chain once in height order gives the same notes.
    pub fn check_differential(&mut self, ctx: &mut RunCtx, owns: bool) -> SimResult {
        let tip = self.chain.tip();
        if !(self.cfg.base_height + 1..=tip).all(|h| self.scanned.contains(&h)) {
            return Ok(());
        }
        ctx.oracle("differential_fresh_linear_wallet");
        let mut cfg = self.cfg.clone();
        cfg.wal = false;
        cfg.batch_threshold = None;
        cfg.subtree_chunk = None;
        // fresh wallet over the same chain (moved in temporarily)
        let mut scratch = RunCtx::new(&ctx.property, vec![], false);
        let mut fresh = WalletSim::new(cfg, 1, &mut scratch)?;
        std::mem::swap(&mut fresh.chain, &mut self.chain);
        fresh.net = self.net;
        let res = (|| -> Result<(), Violation> {
            fresh.update_tip(tip).map_err(|e| Violation::new("update_chain_tip_succeeds", e))?;
            let mut h = fresh.cfg.base_height + 1;
            while h <= tip {
                let n = 50.min(tip - h + 1);
                match fresh.scan(h, n as usize, &SimSourceCfg::default(), &mut scratch)? {
                    Ok((a, b)) => {
                        for x in a..b {
                            fresh.scanned.insert(x);
                        }
                    }
                    Err(e) => return Err(Violation::new("fresh_linear_scan_succeeds", format!("linear scan of {h}..{} failed: {e}", h + n))),
                }
                h += n;
            }
            Ok(())
        })();
        // restore knobs for this run's wallet and give the chain back
        std::mem::swap(&mut fresh.chain, &mut self.chain);
        zcash_client_backend::verif_hooks::set_knob("batch_size_threshold", self.cfg.batch_threshold);
        zcash_client_backend::verif_hooks::set_knob("subtree_chunk_size", self.cfg.subtree_chunk);
        if let Err(v) = res {
            return viol(ctx, owns, v);
        }
        let mine = read_notes(&self.conn, &self.accounts).map_err(|e| Violation::new("notes_readable", e))?;
        let theirs = read_notes(&fresh.conn, &fresh.accounts).map_err(|e| Violation::new("notes_readable", e))?;
        let proj = |v: &Vec<NoteRow>| -> BTreeSet<NoteRow> {
            v.iter()
                .filter(|n| n.mined.is_some())
                .map(|n| {
                    let mut n = n.clone();
                    n.spent_in.retain(|(_, m)| m.is_some());
                    n
                })
                .collect()
        };
        let (a, b) = (proj(&mine), proj(&theirs));
        if a != b {
            let d: Vec<String> = a.symmetric_difference(&b).take(3).map(|n| format!("{} note tx {} idx {} value {} mined {:?} pos {:?} spent_in {:?}", n.pool.name(), hex::encode(&n.txid[..4]), n.idx, n.value, n.mined, n.position, n.spent_in.iter().map(|s| s.1).collect::<Vec<_>>())).collect();
            return viol(ctx, owns, Violation::new("same_notes_as_fresh_linear_wallet", format!("{} vs {} mined notes; first differences: {:?}", a.len(), b.len(), d)));
        }
        // balances: compare once both wallets have no live orphans (fresh has none by construction)
        let ba = read_balances(self).map_err(|e| Violation::new("summary_readable", e))?;
        let bb = read_balances(&mut fresh).map_err(|e| Violation::new("summary_readable", e))?;
        if let (Some((ba, tip_a, _)), Some((bb, _, _))) = (ba, bb) {
            let live = self.orphans.iter().any(|o| o.observed + EXPIRY_DELTA >= tip_a + 1);
            if !live && ba != bb {
                return viol(ctx, owns, Violation::new("same_balances_as_fresh_linear_wallet", format!("{:?} vs {:?}", ba, bb)));
            }
        }
        ctx.probe("differential_compared");
        Ok(())
    }
}

pub fn cfg_json(c: &WalletCfg) -> serde_json::Value {
    json!({"accounts": c.n_accounts, "nu6_3": c.nu6_3, "base_sizes": c.base_sizes, "journal": if c.wal { "WAL" } else { "DELETE" }, "retention": c.retention,
           "batch_threshold": c.batch_threshold, "subtree_chunk": c.subtree_chunk, "tx_density": c.tx_density, "own_pct": c.own_pct, "spend_pct": c.spend_pct})
}
