//! C02 — wallet writes are all-or-nothing and never observed half-applied.
//!
//! For a (database state, operation) pair produced by the wallet simulation: a reference run on a
//! copy of the database gives the post-state, then the operation is re-run on the original with a
//! fault at sampled SQLite VM steps / row writes / commits, with crash images taken mid-operation,
//! with a second connection taking snapshots from inside the writer's progress handler, and with
//! the writer committing from inside a reader's progress handler. Every observation must be the
//! pre-state or the post-state.

use std::cell::{Cell, RefCell};
use std::collections::BTreeMap;
use std::path::{Path, PathBuf};
use std::rc::Rc;
use std::sync::atomic::{AtomicU64, Ordering};
use std::sync::Arc;

use rand_chacha::ChaChaRng;
use rusqlite::types::ValueRef;
use rusqlite::Connection;
use serde_json::json;
use zcash_client_backend::data_api::chain::{scan_cached_blocks, CommitmentTreeRoot};
use zcash_client_backend::data_api::scanning::ScanPriority;
use zcash_client_backend::data_api::wallet::ConfirmationsPolicy;
use zcash_client_backend::data_api::{AccountBirthday, AccountPurpose, TransactionStatus, WalletCommitmentTrees, WalletRead, WalletWrite};
use zcash_client_backend::wallet::WalletTransparentOutput;
use zcash_client_sqlite::{AccountUuid, WalletDb};
use zcash_keys::keys::UnifiedAddressRequest;
use zcash_protocol::consensus::BlockHeight;
use zcash_protocol::local_consensus::LocalNetwork;
use zcash_protocol::value::Zatoshis;
use transparent::keys::IncomingViewingKey;

use crate::choices::{hash_str, Choices, SubRng};
use crate::runner::catch;
use crate::sim::{RunCtx, Scenario, SimResult, Tier, Violation};
use crate::simchain::*;
use crate::wallet::*;

// ---------------------------------------------------------------- canonical dump

pub type Dump = BTreeMap<String, Vec<String>>;

struct TableInfo {
    name: String,
    cols: Vec<String>,
    /// index of an *assigned* integer primary key column (rowid alias named id / id_tx), if any
    assigned_pk: Option<usize>,
    /// column index -> referenced table (only when the reference targets that table's assigned pk)
    fks: BTreeMap<usize, String>,
}

fn val_str(v: ValueRef<'_>) -> String {
    match v {
        ValueRef::Null => "∅".to_string(),
        ValueRef::Integer(i) => i.to_string(),
        ValueRef::Real(f) => format!("{f}"),
        ValueRef::Text(t) => format!("'{}'", String::from_utf8_lossy(t)),
        ValueRef::Blob(b) => format!("x{}", hex::encode(b)),
    }
}

fn schema(conn: &Connection) -> rusqlite::Result<Vec<TableInfo>> {
    let mut names: Vec<String> = vec![];
    {
        let mut st = conn.prepare("SELECT name FROM main.sqlite_schema WHERE type='table' AND name NOT LIKE 'sqlite_%' ORDER BY name")?;
        let rows = st.query_map([], |r| r.get::<_, String>(0))?;
        for r in rows {
            names.push(r?);
        }
    }
    let mut out = vec![];
    for name in &names {
        let mut cols = vec![];
        let mut assigned_pk = None;
        {
            let mut st = conn.prepare(&format!("PRAGMA main.table_info(\"{name}\")"))?;
            let mut rows = st.query([])?;
            while let Some(r) = rows.next()? {
                let cname: String = r.get(1)?;
                let ctype: String = r.get::<_, Option<String>>(2)?.unwrap_or_default();
                let pk: i64 = r.get(5)?;
                if pk == 1 && ctype.to_uppercase() == "INTEGER" && (cname == "id" || cname == "id_tx") {
                    assigned_pk = Some(cols.len());
                }
                cols.push(cname);
            }
        }
        out.push(TableInfo { name: name.clone(), cols, assigned_pk, fks: BTreeMap::new() });
    }
    let assigned: BTreeMap<String, String> = out.iter().filter_map(|t| t.assigned_pk.map(|i| (t.name.clone(), t.cols[i].clone()))).collect();
    for t in out.iter_mut() {
        let mut st = conn.prepare(&format!("PRAGMA main.foreign_key_list(\"{}\")", t.name))?;
        let mut rows = st.query([])?;
        while let Some(r) = rows.next()? {
            let parent: String = r.get(2)?;
            let from: String = r.get(3)?;
            let to: Option<String> = r.get(4)?;
            if let Some(pk) = assigned.get(&parent) {
                if to.as_deref().map(|x| x == pk).unwrap_or(true) {
                    if let Some(i) = t.cols.iter().position(|c| *c == from) {
                        t.fks.insert(i, parent.clone());
                    }
                }
            }
        }
    }
    Ok(out)
}

/// Content-keyed dump of every user table (assigned row ids and the foreign keys that point at
/// them are replaced by content-derived labels). Runs inside whatever transaction state `conn` is in.
pub fn dump(conn: &Connection) -> rusqlite::Result<Dump> {
    let tables = schema(conn)?;
    // load
    let mut raw: BTreeMap<String, Vec<Vec<String>>> = BTreeMap::new();
    for t in &tables {
        let mut st = conn.prepare(&format!("SELECT * FROM main.\"{}\"", t.name))?;
        let n = t.cols.len();
        let mut rows = st.query([])?;
        let mut v = vec![];
        while let Some(r) = rows.next()? {
            let mut row = Vec::with_capacity(n);
            for i in 0..n {
                row.push(val_str(r.get_ref(i)?));
            }
            v.push(row);
        }
        raw.insert(t.name.clone(), v);
    }
    // labels
    let by_name: BTreeMap<&str, &TableInfo> = tables.iter().map(|t| (t.name.as_str(), t)).collect();
    let mut index: BTreeMap<(String, String), usize> = BTreeMap::new(); // (table, pk value) -> row index
    for t in &tables {
        if let Some(pk) = t.assigned_pk {
            for (i, row) in raw[&t.name].iter().enumerate() {
                index.insert((t.name.clone(), row[pk].clone()), i);
            }
        }
    }
    fn label(table: &str, pkv: &str, by_name: &BTreeMap<&str, &TableInfo>, raw: &BTreeMap<String, Vec<Vec<String>>>, index: &BTreeMap<(String, String), usize>, memo: &mut BTreeMap<(String, String), String>, depth: usize) -> String {
        if pkv == "∅" {
            return "∅".into();
        }
        let key = (table.to_string(), pkv.to_string());
        if let Some(l) = memo.get(&key) {
            return l.clone();
        }
        let Some(&ri) = index.get(&key) else { return format!("dangling:{table}:{pkv}") };
        if depth > 8 {
            return format!("deep:{table}:{pkv}");
        }
        let t = by_name[table];
        let row = &raw[table][ri];
        let mut parts = vec![];
        for (i, v) in row.iter().enumerate() {
            if Some(i) == t.assigned_pk {
                continue;
            }
            match t.fks.get(&i) {
                Some(parent) => parts.push(label(parent, v, by_name, raw, index, memo, depth + 1)),
                None => parts.push(v.clone()),
            }
        }
        let l = format!("#{:016x}", hash_str(&parts.join("|")));
        memo.insert(key, l.clone());
        l
    }
    let mut memo = BTreeMap::new();
    let mut out = Dump::new();
    for t in &tables {
        let mut rows_out = vec![];
        for row in &raw[&t.name] {
            let mut parts = vec![];
            for (i, v) in row.iter().enumerate() {
                if Some(i) == t.assigned_pk {
                    continue;
                }
                match t.fks.get(&i) {
                    Some(parent) => parts.push(label(parent, v, &by_name, &raw, &index, &mut memo, 0)),
                    None => parts.push(v.clone()),
                }
            }
            rows_out.push(parts.join("|"));
        }
        rows_out.sort();
        out.insert(t.name.clone(), rows_out);
    }
    Ok(out)
}

pub fn dump_hash(d: &Dump) -> u64 {
    let mut h = 0u64;
    for (t, rows) in d {
        h = crate::choices::mix(h, hash_str(t));
        for r in rows {
            h = crate::choices::mix(h, hash_str(r));
        }
    }
    h
}

/// First difference between two dumps, for reporting.
pub fn dump_diff(a: &Dump, b: &Dump) -> String {
    for (t, ra) in a {
        let rb = b.get(t).cloned().unwrap_or_default();
        if *ra != rb {
            let only_a = ra.iter().filter(|x| !rb.contains(x)).count();
            let only_b = rb.iter().filter(|x| !ra.contains(x)).count();
            let fa = ra.iter().find(|x| !rb.contains(x)).cloned().unwrap_or_default();
            let fb = rb.iter().find(|x| !ra.contains(x)).cloned().unwrap_or_default();
            // show where the first unmatched rows differ
            let at = fa.bytes().zip(fb.bytes()).position(|(x, y)| x != y).unwrap_or(fa.len().min(fb.len()));
            let cut = |s: &str| -> String { let lo = at.saturating_sub(40); s.chars().skip(lo).take(120).collect() };
            return format!("table {t}: {} vs {} rows ({} only in first, {} only in second; e.g. ...{} | ...{})", ra.len(), rb.len(), only_a, only_b, cut(&fa), cut(&fb));
        }
    }
    for t in b.keys() {
        if !a.contains_key(t) {
            return format!("table {t} only in second");
        }
    }
    "equal".into()
}

/// Dump through a connection inside one read transaction; None = SQLITE_BUSY / locked.
pub fn dump_in_read_txn(conn: &Connection) -> Result<Option<Dump>, String> {
    match conn.execute_batch("BEGIN") {
        Ok(()) => {}
        Err(e) => return if is_busy(&e) { Ok(None) } else { Err(e.to_string()) },
    }
    let r = dump(conn);
    let _ = conn.execute_batch("COMMIT");
    match r {
        Ok(d) => Ok(Some(d)),
        Err(e) => {
            if is_busy(&e) {
                Ok(None)
            } else {
                Err(e.to_string())
            }
        }
    }
}

fn is_busy(e: &rusqlite::Error) -> bool {
    matches!(e, rusqlite::Error::SqliteFailure(f, _) if matches!(f.code, rusqlite::ErrorCode::DatabaseBusy | rusqlite::ErrorCode::DatabaseLocked))
}

// ---------------------------------------------------------------- fault injection on a connection

thread_local! {
    /// the statement currently running on the writer connection is a ROLLBACK
    pub static IN_ROLLBACK: Cell<bool> = const { Cell::new(false) };
    pub static STEP_DBG: Cell<u64> = const { Cell::new(0) };
    static FIRE_COUNT: Cell<u64> = const { Cell::new(0) };
    static FIRE_AT: Cell<u64> = const { Cell::new(0) };
}

pub fn stmt_tracer(ev: rusqlite::trace::TraceEvent<'_>) {
    if let rusqlite::trace::TraceEvent::Stmt(_, sql) = ev {
        // trigger sub-programs report as "-- TRIGGER ..."; they do not change the enclosing statement
        if std::env::var_os("ZSIM_TRACE_SQL").is_some() {
            eprintln!("   sql[{}]: {}", STEP_DBG.with(|c| c.get()), sql.chars().take(100).collect::<String>().replace('\n', " "));
        }
        if !sql.starts_with("--") {
            let up = sql.trim_start().chars().take(9).collect::<String>().to_ascii_uppercase();
            // transaction-control statements other than COMMIT do no I/O; an sqlite3_interrupt delivered to
            // them (BEGIN after it has switched autocommit off, ROLLBACK before it has rolled back) leaves the
            // connection inside a transaction, which says nothing about the I/O failures the interrupt stands for
            let ctl = up.starts_with("BEGIN") || up.starts_with("ROLLBACK") || up.starts_with("SAVEPOINT") || up.starts_with("RELEASE");
            IN_ROLLBACK.with(|c| c.set(ctl));
        }
    }
}

/// Install the row-write fault triggers (TEMP, nothing is added to the database file).
pub fn install_write_triggers(conn: &Connection) -> rusqlite::Result<usize> {
    conn.create_scalar_function("zsim_fire", 0, rusqlite::functions::FunctionFlags::SQLITE_UTF8, |_| {
        let n = FIRE_COUNT.with(|c| {
            c.set(c.get() + 1);
            c.get()
        });
        Ok(FIRE_AT.with(|a| a.get()) == n)
    })?;
    let tables = schema(conn)?;
    let mut n = 0;
    for t in &tables {
        for (ev, tag) in [("INSERT", "i"), ("UPDATE", "u"), ("DELETE", "d")] {
            conn.execute_batch(&format!(
                "CREATE TEMP TRIGGER IF NOT EXISTS zsim_{tag}_{name} BEFORE {ev} ON main.\"{name}\" WHEN zsim_fire() BEGIN SELECT RAISE(ABORT, 'zsim: injected statement failure'); END;",
                name = t.name
            ))?;
            n += 1;
        }
    }
    Ok(n)
}

// ---------------------------------------------------------------- operations

#[derive(Clone, Debug)]
pub enum Op {
    Scan { from: u32, limit: usize },
    Truncate { h: u32 },
    UpdateTip { h: u32 },
    CreateAccount,
    ImportUfvk { idx: u32 },
    DeleteAccount { i: usize },
    PutSubtreeRoots { pool: Pool, start: u64, n: usize },
    NextAddress { i: usize },
    PutUtxo { i: usize, value: u64, h: u32, salt: u64 },
    SetTxStatus { txid: [u8; 32], mined: Option<u32> },
    QueueRescans { a: u32, b: u32, prio: u8 },
    TruncateToChainState { h: u32 },
    RewindToChainState { h: u32, reset: bool },
    LockOutputs { refs: Vec<(u8, [u8; 32], u32)>, owner: u8, expiry: u32 },
    UnlockOutput { r: (u8, [u8; 32], u32), owner: u8 },
    ClearLocks { i: usize },
    StoreMigration { i: usize, salt: u64, lo: u32, hi: u32, nfs: Vec<[u8; 32]> },
    CancelMigration { i: usize },
    PruneQueueBelow { h: u32, retain: u8 },
}

impl Op {
    pub fn kind(&self) -> &'static str {
        match self {
            Op::Scan { .. } => "scan_cached_blocks",
            Op::Truncate { .. } => "truncate_to_height",
            Op::UpdateTip { .. } => "update_chain_tip",
            Op::CreateAccount => "create_account",
            Op::ImportUfvk { .. } => "import_account_ufvk",
            Op::DeleteAccount { .. } => "delete_account",
            Op::PutSubtreeRoots { .. } => "put_subtree_roots",
            Op::NextAddress { .. } => "get_next_available_address",
            Op::PutUtxo { .. } => "put_received_transparent_utxo",
            Op::SetTxStatus { .. } => "set_transaction_status",
            Op::QueueRescans { .. } => "queue_rescans",
            Op::TruncateToChainState { .. } => "truncate_to_chain_state",
            Op::RewindToChainState { .. } => "rewind_to_chain_state",
            Op::LockOutputs { .. } => "lock_outputs",
            Op::UnlockOutput { .. } => "unlock_output",
            Op::ClearLocks { .. } => "clear_locked_outputs",
            Op::StoreMigration { .. } => "pool_migration.replace_migration",
            Op::CancelMigration { .. } => "pool_migration.cancel_migration",
            Op::PruneQueueBelow { .. } => "prune_scan_queue_below",
        }
    }
}

#[derive(Clone)]
pub struct Env {
    pub net: LocalNetwork,
    pub clock: SimClock,
    pub cfg: WalletCfg,
    chain: *const SimChain,
    pub accounts: Vec<AccountUuid>,
}
unsafe impl Send for Env {}
unsafe impl Sync for Env {}
impl Env {
    /// The chain is not modified while an `Env` derived from the simulation is alive (sweeps only
    /// read it); the pointer avoids tying every closure to a borrow of the whole simulation.
    pub fn of(s: &WalletSim) -> Env {
        Env { net: s.net, clock: s.clock.clone(), cfg: s.cfg.clone(), chain: &s.chain as *const SimChain, accounts: s.accounts.clone() }
    }
    pub fn chain(&self) -> &SimChain {
        unsafe { &*self.chain }
    }
}

/// Apply one operation through a fresh `WalletDb` wrapper on `conn`.
pub fn apply_op(conn: &mut Connection, rng: &mut ChaChaRng, env: &Env, op: &Op) -> Result<String, String> {
    // the pool-migration store works on the connection directly
    match op {
        Op::StoreMigration { i, salt, lo, hi, nfs } => {
            let st = crate::migration::sample_migration_state(*salt, *lo, *hi, nfs).ok_or("state")?;
            return crate::migration::store_migration(env.net, conn, env.accounts[*i], &st);
        }
        Op::CancelMigration { i } => return crate::migration::cancel_migration(env.net, conn, env.accounts[*i]),
        _ => {}
    }
    let mut d = WalletDb::from_connection(conn, env.net, env.clock.clone(), rng);
    if let Some(r) = env.cfg.retention {
        d.set_anchor_retention_interval(zcash_client_backend::data_api::anchor_retention::AnchorRetentionInterval::custom(std::num::NonZeroU32::new(r).unwrap()));
    }
    let e = |e: &dyn std::fmt::Display| e.to_string();
    match op {
        Op::Scan { from, limit } => {
            let st = env.chain().chain_state_at(from - 1).ok_or("no chain state")?;
            let src = SimSource::new(env.chain());
            scan_cached_blocks(&env.net, &src, &mut d, BlockHeight::from_u32(*from), &st, *limit).map(|s| format!("scanned {:?}", s.scanned_range())).map_err(|x| e(&x))
        }
        Op::Truncate { h } => d.truncate_to_height(BlockHeight::from_u32(*h)).map(|g| format!("truncated to {g}")).map_err(|x| e(&x)),
        Op::TruncateToChainState { h } => {
            let st = env.chain().chain_state_at(*h).ok_or("no chain state")?;
            d.truncate_to_chain_state(st).map(|_| "ok".to_string()).map_err(|x| e(&x))
        }
        Op::UpdateTip { h } => d.update_chain_tip(BlockHeight::from_u32(*h)).map(|_| "ok".to_string()).map_err(|x| e(&x)),
        Op::CreateAccount => {
            let b = AccountBirthday::from_parts(env.chain().chain_state_at(env.cfg.base_height).unwrap(), None);
            d.create_account("extra", &secrecy::SecretVec::new(sim_seed()), &b, None).map(|(id, _)| format!("account {:?}", id.expose_uuid())).map_err(|x| e(&x))
        }
        Op::ImportUfvk { idx } => {
            let b = AccountBirthday::from_parts(env.chain().chain_state_at(env.cfg.base_height).unwrap(), None);
            let k = acct_keys(&env.net, *idx);
            d.import_account_ufvk("imported", &k.ufvk, &b, AccountPurpose::ViewOnly, None).map(|_| "imported".to_string()).map_err(|x| e(&x))
        }
        Op::DeleteAccount { i } => d.delete_account(env.accounts[*i]).map(|_| "deleted".to_string()).map_err(|x| e(&x)),
        Op::PutSubtreeRoots { pool, start, n } => {
            let h = BlockHeight::from_u32(env.cfg.base_height);
            let mut r = SubRng::new(*start ^ 0x5EED);
            match pool {
                Pool::Sapling => {
                    let roots: Vec<_> = (0..*n).map(|_| CommitmentTreeRoot::from_parts(h, fab_sap_frontier(1, &mut r).root())).collect();
                    d.put_sapling_subtree_roots(*start, &roots).map(|_| "ok".to_string()).map_err(|x| format!("{x:?}"))
                }
                Pool::Orchard => {
                    let roots: Vec<_> = (0..*n).map(|_| CommitmentTreeRoot::from_parts(h, fab_orch_frontier(1, &mut r).root())).collect();
                    d.put_orchard_subtree_roots(*start, &roots).map(|_| "ok".to_string()).map_err(|x| format!("{x:?}"))
                }
                Pool::Ironwood => {
                    let roots: Vec<_> = (0..*n).map(|_| CommitmentTreeRoot::from_parts(h, fab_orch_frontier(1, &mut r).root())).collect();
                    d.put_ironwood_subtree_roots(*start, &roots).map(|_| "ok".to_string()).map_err(|x| format!("{x:?}"))
                }
            }
        }
        Op::NextAddress { i } => d.get_next_available_address(env.accounts[*i], UnifiedAddressRequest::ALLOW_ALL).map(|a| format!("{}", a.is_some())).map_err(|x| e(&x)),
        Op::PutUtxo { i, value, h, salt } => {
            let k = acct_keys(&env.net, *i as u32);
            let taddr = k.ufvk.transparent().ok_or("no transparent key")?.derive_external_ivk().map_err(|_| "ivk")?.default_address().0;
            let mut r = SubRng::new(*salt);
            let outpoint = transparent::bundle::OutPoint::new(r.bytes32(), (r.next() % 4) as u32);
            let txout = transparent::bundle::TxOut::new(Zatoshis::from_u64(*value).map_err(|_| "value")?, taddr.script().into());
            let o = WalletTransparentOutput::from_parts(outpoint, txout, Some(BlockHeight::from_u32(*h)), None, None, None).ok_or("utxo parts")?;
            d.put_received_transparent_utxo(&o).map(|_| "ok".to_string()).map_err(|x| e(&x))
        }
        Op::SetTxStatus { txid, mined } => {
            let st = match mined {
                Some(h) => TransactionStatus::Mined(BlockHeight::from_u32(*h)),
                None => TransactionStatus::NotInMainChain,
            };
            d.set_transaction_status(zcash_protocol::TxId::from_bytes(*txid), st).map(|_| "ok".to_string()).map_err(|x| e(&x))
        }
        Op::QueueRescans { a, b, prio } => {
            let p = match prio {
                0 => ScanPriority::Historic,
                1 => ScanPriority::FoundNote,
                2 => ScanPriority::OpenAdjacent,
                _ => ScanPriority::Verify,
            };
            d.queue_rescans(nonempty::NonEmpty::singleton(BlockHeight::from_u32(*a)..BlockHeight::from_u32(*b)), p).map(|_| "ok".to_string()).map_err(|x| e(&x))
        }
        Op::RewindToChainState { h, reset } => {
            let st = env.chain().chain_state_at(*h).ok_or("no chain state")?;
            let set: std::collections::HashSet<AccountUuid> = if *reset { env.accounts.iter().copied().collect() } else { Default::default() };
            d.rewind_to_chain_state(st, set).map(|_| "rewound".to_string()).map_err(|x| format!("{x:?}"))
        }
        Op::LockOutputs { refs, owner, expiry } => {
            use zcash_client_backend::data_api::locking::{LockOwner, OutputLockStore};
            use zcash_client_backend::wallet::OutputRef;
            let refs: Vec<OutputRef> = refs.iter().map(|(p, t, i)| OutputRef::new(zcash_protocol::TxId::from_bytes(*t), pool_type(*p), *i)).collect();
            d.lock_outputs(&refs, LockOwner::new([*owner; 32]), BlockHeight::from_u32(*expiry)).map(|n| format!("locked {n}")).map_err(|x| format!("{x:?}"))
        }
        Op::UnlockOutput { r, owner } => {
            use zcash_client_backend::data_api::locking::{LockOwner, OutputLockStore};
            use zcash_client_backend::wallet::OutputRef;
            d.unlock_output(&OutputRef::new(zcash_protocol::TxId::from_bytes(r.1), pool_type(r.0), r.2), LockOwner::new([*owner; 32])).map(|b| format!("unlocked {b}")).map_err(|x| e(&x))
        }
        Op::ClearLocks { i } => {
            use zcash_client_backend::data_api::locking::OutputLockStore;
            d.clear_locked_outputs(env.accounts[*i]).map(|n| format!("cleared {n}")).map_err(|x| e(&x))
        }
        Op::PruneQueueBelow { h, retain } => {
            let p = match retain {
                0 => None,
                1 => Some(ScanPriority::Historic),
                2 => Some(ScanPriority::OpenAdjacent),
                3 => Some(ScanPriority::FoundNote),
                _ => Some(ScanPriority::Verify),
            };
            d.prune_scan_queue_below(BlockHeight::from_u32(*h), p).map(|n| format!("pruned {n}")).map_err(|x| e(&x))
        }
        Op::StoreMigration { .. } | Op::CancelMigration { .. } => unreachable!(),
    }
}

fn pool_type(p: u8) -> zcash_protocol::PoolType {
    use zcash_protocol::{PoolType, ShieldedPool};
    match p {
        0 => PoolType::Shielded(ShieldedPool::Sapling),
        1 => PoolType::Shielded(ShieldedPool::Orchard),
        2 => PoolType::Shielded(ShieldedPool::Ironwood),
        _ => PoolType::Transparent,
    }
}

/// Outputs the wallet holds for an account, per pool table: (pool code, txid, index).
fn wallet_outputs(conn: &Connection, acct: AccountUuid) -> Vec<(u8, [u8; 32], u32)> {
    let mut out = vec![];
    for (code, table, col) in [(0u8, "sapling_received_notes", "output_index"), (1, "orchard_received_notes", "action_index"), (2, "ironwood_received_notes", "action_index"), (3, "transparent_received_outputs", "output_index")] {
        let sql = format!("SELECT t.txid, n.{col} FROM {table} n JOIN transactions t ON t.id_tx = n.transaction_id JOIN accounts a ON a.id = n.account_id WHERE a.uuid = ?1 ORDER BY t.txid, n.{col} LIMIT 6");
        if let Ok(mut st) = conn.prepare(&sql) {
            let rows: Vec<(Vec<u8>, u32)> = st.query_map([acct.expose_uuid()], |r| Ok((r.get(0)?, r.get(1)?))).map(|it| it.filter_map(|x| x.ok()).collect()).unwrap_or_default();
            for (t, i) in rows {
                if t.len() == 32 {
                    let mut x = [0u8; 32];
                    x.copy_from_slice(&t);
                    out.push((code, x, i));
                }
            }
        }
    }
    out
}

fn orchard_nullifiers(conn: &Connection, acct: AccountUuid) -> Vec<[u8; 32]> {
    // notes whose spend was mined most recently first: a rewind is then likely to un-mine what the oracle looks at
    let sql = "SELECT n.nf FROM orchard_received_notes n JOIN accounts a ON a.id = n.account_id
               LEFT JOIN orchard_received_note_spends sp ON sp.orchard_received_note_id = n.id
               LEFT JOIN transactions st ON st.id_tx = sp.transaction_id
               WHERE a.uuid = ?1 AND n.nf IS NOT NULL GROUP BY n.id ORDER BY MAX(st.mined_height) DESC NULLS LAST, n.nf LIMIT 4";
    let mut out = vec![];
    if let Ok(mut st) = conn.prepare(sql) {
        let rows: Vec<Vec<u8>> = st.query_map([acct.expose_uuid()], |r| r.get(0)).map(|it| it.filter_map(|x| x.ok()).collect()).unwrap_or_default();
        for t in rows {
            if t.len() == 32 {
                let mut x = [0u8; 32];
                x.copy_from_slice(&t);
                out.push(x);
            }
        }
    }
    out
}

// ---------------------------------------------------------------- the sweep

/// Observation helpers shared between the writer's progress handler and the sweep.
struct Probe {
    step: Cell<u64>,
    interrupt_at: Cell<u64>,
    snapshot_at: RefCell<Vec<u64>>,
    crash_at: RefCell<Vec<u64>>,
    commits: Cell<u64>,
    refuse_commit: Cell<u64>,
    /// observations collected from inside the handler
    snapshots: RefCell<Vec<(u64, Result<Option<Dump>, String>, Option<String>)>>,
    crash_images: RefCell<Vec<(u64, PathBuf)>>,
    after_commit_pending: Cell<bool>,
}

fn files_of(path: &Path) -> Vec<PathBuf> {
    let mut v = vec![path.to_path_buf()];
    for suf in ["-journal", "-wal", "-shm"] {
        let mut s = path.as_os_str().to_owned();
        s.push(suf);
        v.push(PathBuf::from(s));
    }
    v
}

fn copy_db(src: &Path, dst_dir: &Path, tag: &str) -> PathBuf {
    let d = dst_dir.join(tag);
    std::fs::create_dir_all(&d).unwrap();
    let base = d.join("wallet.db");
    for (f, suf) in files_of(src).iter().zip(["", "-journal", "-wal", "-shm"]) {
        if f.exists() {
            let mut t = base.as_os_str().to_owned();
            t.push(suf);
            let _ = std::fs::copy(f, PathBuf::from(t));
        }
    }
    base
}

pub struct SweepStats {
    pub steps: u64,
    pub commits: u64,
    pub writes: u64,
    pub ref_ok: bool,
}

/// Run `f` on a fresh OS thread whose hash seeds / OS entropy stream are reset to `seed`, so that
/// the reference run, every faulted attempt and the retry see identical HashMap iteration orders.
fn on_fresh_thread<R: Send>(seed: u64, knobs: (Option<usize>, Option<usize>), f: impl FnOnce() -> R + Send) -> R {
    std::thread::scope(|s| {
        std::thread::Builder::new()
            .stack_size(64 << 20)
            .spawn_scoped(s, move || {
                unsafe {
                    let sym = libc::dlsym(libc::RTLD_DEFAULT, c"zsim_getrandom_reseed".as_ptr());
                    if !sym.is_null() {
                        let g: extern "C" fn(u64) = std::mem::transmute(sym);
                        g(seed);
                    }
                }
                zcash_client_backend::verif_hooks::set_knob("batch_size_threshold", knobs.0);
                zcash_client_backend::verif_hooks::set_knob("subtree_chunk_size", knobs.1);
                crate::runner::QUIET_PANICS.with(|q| q.set(true));
                f()
            })
            .expect("spawn")
            .join()
            .expect("op thread")
    })
}

struct SendPtr<T>(*mut T);
unsafe impl<T> Send for SendPtr<T> {}
impl<T> SendPtr<T> {
    fn get(&self) -> *mut T {
        self.0
    }
}

/// The whole C02 procedure for one (state, operation) pair. On return the operation has been
/// applied to the simulation's database (the final un-faulted retry).
pub fn sweep(s: &mut WalletSim, op: &Op, ch: &mut Choices, ctx: &mut RunCtx, positions: usize) -> Result<SweepStats, Violation> {
    let kind = op.kind();
    let knobs = (s.cfg.batch_threshold, s.cfg.subtree_chunk);
    let thread_seed = ch.u64("op.thread_seed");
    let scratch = s.path.parent().unwrap().join(format!("c02-{}", ctx.seq));
    std::fs::create_dir_all(&scratch).unwrap();
    let rng0 = s.rng.clone();
    let v = |oracle: &str, d: String| Violation::keyed(oracle, format!("{oracle}:{kind}"), format!("{kind}: {d}"));

    // make sure the connection carries the write triggers (survive across operations)
    let have: i64 = s.conn.query_row("SELECT count(*) FROM temp.sqlite_schema WHERE name LIKE 'zsim_%'", [], |r| r.get(0)).unwrap_or(0);
    if have == 0 {
        install_write_triggers(&s.conn).map_err(|e| v("harness_triggers", e.to_string()))?;
    }
    FIRE_AT.with(|a| a.set(0));

    let pre = dump(&s.conn).map_err(|e| v("dump_readable", e.to_string()))?;
    ctx.state(dump_hash(&pre));

    // ---- 1. reference run on a copy
    // flush WAL content into the copy by copying all files; a fresh connection then sees the same state
    let ref_path = copy_db(&s.path, &scratch, "ref");
    let env = Env::of(s);
    let (ref_res, post, steps, commits, writes) = {
        let mut rconn = open_conn(&ref_path, s.cfg.wal);
        install_write_triggers(&rconn).map_err(|e| v("harness_triggers", e.to_string()))?;
        let steps = Arc::new(AtomicU64::new(0));
        let commits = Arc::new(AtomicU64::new(0));
        let (s2, c2) = (steps.clone(), commits.clone());
        rconn.progress_handler(1, Some(move || {
            s2.fetch_add(1, Ordering::Relaxed);
            false
        }));
        rconn.commit_hook(Some(move || {
            c2.fetch_add(1, Ordering::Relaxed);
            false
        }));
        let mut rng = rng0.clone();
        let res = on_fresh_thread(thread_seed, knobs, || {
            FIRE_COUNT.with(|c| c.set(0));
            FIRE_AT.with(|a| a.set(0));
            let r = catch(|| apply_op(&mut rconn, &mut rng, &env, op));
            (r, FIRE_COUNT.with(|c| c.get()))
        });
        rconn.progress_handler(1, None::<fn() -> bool>);
        rconn.commit_hook(None::<fn() -> bool>);
        let (r, writes) = res;
        let r = r.map_err(|m| Violation::keyed("no_panic", format!("panic:{}", crate::runner::panic_site(&m)), format!("{kind} panicked on the reference run: {m}")))?;
        let post = dump(&rconn).map_err(|e| v("dump_readable", e.to_string()))?;
        if !rconn.is_autocommit() {
            return Err(v("no_transaction_left_open", "reference run returned with a transaction still open".into()));
        }
        (r, post, steps.load(Ordering::Relaxed), commits.load(Ordering::Relaxed), writes)
    };
    let ref_ok = ref_res.is_ok();
    ctx.event(format!("{kind} {:?}: reference {} ({} VM steps, {} commits, {} row writes){}", op, if ref_ok { "Ok" } else { "Err" }, steps, commits, writes, ref_res.as_ref().err().map(|e| format!(": {e}")).unwrap_or_default()));
    ctx.shape(if ref_ok { "ref_ok" } else { "ref_err" });
    if !ref_ok && post != pre {
        return Err(v("failed_operation_leaves_state_unchanged", format!("the operation failed ({}) but changed the database: {}", ref_res.unwrap_err(), dump_diff(&pre, &post))));
    }
    if commits > 1 {
        ctx.probe("multi_commit_seen");
    }
    let changed = post != pre;

    // second connection for snapshots
    let mut conn2 = open_conn(&s.path, s.cfg.wal);

    // ---- 2-4. faulted attempts on the original
    #[derive(Clone, Debug)]
    enum Fault {
        Interrupt(u64),
        WriteAbort(u64),
        CommitRefused(u64),
        Observe { snaps: Vec<u64>, crashes: Vec<u64> },
    }
    let mut plan: Vec<Fault> = vec![];
    if steps > 0 {
        // stratified: first steps, last steps, around the end, uniform elsewhere
        let mut ks: Vec<u64> = vec![1, 2.min(steps), steps, steps.saturating_sub(1).max(1), steps.saturating_sub(5).max(1)];
        for _ in 0..positions {
            ks.push(1 + ch.below("k.interrupt", steps));
        }
        ks.sort();
        ks.dedup();
        for k in ks {
            plan.push(Fault::Interrupt(k));
        }
    }
    if writes > 0 {
        let mut ws: Vec<u64> = vec![1, writes];
        for _ in 0..(positions / 2).max(2) {
            ws.push(1 + ch.below("k.write", writes));
        }
        ws.sort();
        ws.dedup();
        for w in ws {
            plan.push(Fault::WriteAbort(w));
        }
    }
    for j in 1..=commits.min(3) {
        plan.push(Fault::CommitRefused(j));
    }
    if steps > 0 {
        let snaps: Vec<u64> = (0..3).map(|_| 1 + ch.below("k.snap", steps)).collect();
        let crashes: Vec<u64> = (0..2).map(|_| 1 + ch.below("k.crash", steps)).collect();
        plan.push(Fault::Observe { snaps, crashes });
    }

    let env = Env::of(s);
    let accounts = s.accounts.clone();
    for fault in &plan {
        let probe = Rc::new(Probe {
            step: Cell::new(0),
            interrupt_at: Cell::new(0),
            snapshot_at: RefCell::new(vec![]),
            crash_at: RefCell::new(vec![]),
            commits: Cell::new(0),
            refuse_commit: Cell::new(0),
            snapshots: RefCell::new(vec![]),
            crash_images: RefCell::new(vec![]),
            after_commit_pending: Cell::new(false),
        });
        let mut write_at = 0u64;
        match fault {
            Fault::Interrupt(k) => probe.interrupt_at.set(*k),
            Fault::WriteAbort(w) => write_at = *w,
            Fault::CommitRefused(j) => probe.refuse_commit.set(*j),
            Fault::Observe { snaps, crashes } => {
                *probe.snapshot_at.borrow_mut() = snaps.clone();
                *probe.crash_at.borrow_mut() = crashes.clone();
            }
        }
        // hooks: the closures run on the op thread; Rc/RefCell are only touched there and after join
        let p_ptr = SendPtr(Rc::as_ptr(&probe) as *mut Probe);
        let c2_ptr = SendPtr(&conn2 as *const Connection as *mut Connection);
        let path = s.path.clone();
        let scratch2 = scratch.clone();
        let accounts2 = accounts.clone();
        let (net, clock) = (s.net, s.clock.clone());
        let handler = move || -> bool {
            let p = unsafe { &*p_ptr.get() };
            let c2 = unsafe { &*c2_ptr.get() };
            let k = p.step.get() + 1;
            p.step.set(k);
            STEP_DBG.with(|c| c.set(k));
            let after_commit = p.after_commit_pending.replace(false);
            if after_commit || p.snapshot_at.borrow().contains(&k) {
                // a second connection takes a snapshot while the writer is in progress
                let d = dump_in_read_txn(c2);
                let summary = {
                    let mut rr = rand_core::OsRng;
                    let _ = &mut rr;
                    let db = WalletDb::from_connection(c2, net, clock.clone(), ());
                    match db.get_wallet_summary(ConfirmationsPolicy::MIN) {
                        Ok(s) => Some(summary_string(&s, &accounts2)),
                        Err(e) => Some(format!("ERR {e}")),
                    }
                };
                p.snapshots.borrow_mut().push((k, d, summary));
            }
            if p.crash_at.borrow().contains(&k) {
                let img = copy_db(&path, &scratch2, &format!("crash-{k}"));
                p.crash_images.borrow_mut().push((k, img));
            }
            // An interrupt is never delivered to BEGIN / ROLLBACK / SAVEPOINT / RELEASE (see stmt_tracer).
            p.interrupt_at.get() == k && !IN_ROLLBACK.with(|c| c.get())
        };
        let p_ptr2 = SendPtr(Rc::as_ptr(&probe) as *mut Probe);
        let commit_hook = move || -> bool {
            let p = unsafe { &*p_ptr2.get() };
            let j = p.commits.get() + 1;
            p.commits.set(j);
            if p.refuse_commit.get() == j {
                return true;
            }
            p.after_commit_pending.set(true);
            false
        };
        s.conn.progress_handler(1, Some(handler));
        s.conn.commit_hook(Some(commit_hook));
        s.conn.trace_v2(rusqlite::trace::TraceEventCodes::SQLITE_TRACE_STMT, Some(stmt_tracer));
        let mut rng = rng0.clone();
        let conn_ptr = SendPtr(&mut s.conn as *mut Connection);
        let env_i = env.clone();
        let (res, fired_writes) = on_fresh_thread(thread_seed, knobs, move || {
            let conn = unsafe { &mut *conn_ptr.get() };
            FIRE_COUNT.with(|c| c.set(0));
            FIRE_AT.with(|a| a.set(write_at));
            IN_ROLLBACK.with(|c| c.set(false));
            let r = catch(|| apply_op(conn, &mut rng, &env_i, op));
            FIRE_AT.with(|a| a.set(0));
            (r, FIRE_COUNT.with(|c| c.get()))
        });
        s.conn.progress_handler(1, None::<fn() -> bool>);
        s.conn.commit_hook(None::<fn() -> bool>);
        s.conn.trace_v2(rusqlite::trace::TraceEventCodes::SQLITE_TRACE_STMT, None);
        let fault_desc = format!("{fault:?}");
        let res = res.map_err(|m| Violation::keyed("no_panic", format!("panic:{}", crate::runner::panic_site(&m)), format!("{kind} panicked under {fault_desc}: {m}")))?;
        let fired = match fault {
            Fault::Interrupt(k) => probe.step.get() >= *k,
            Fault::WriteAbort(w) => fired_writes >= *w,
            Fault::CommitRefused(j) => probe.commits.get() >= *j,
            Fault::Observe { .. } => false,
        };
        match fault {
            Fault::Interrupt(_) if fired => ctx.fault("sql_interrupt@step"),
            Fault::WriteAbort(_) if fired => ctx.fault("sql_stmt_abort@write_n"),
            Fault::CommitRefused(_) if fired => ctx.fault("sql_commit_refused"),
            _ => {}
        }
        if !s.conn.is_autocommit() {
            return Err(v("no_transaction_left_open", format!("returned {} under {fault_desc} with a transaction still open", if res.is_ok() { "Ok" } else { "Err" })));
        }
        ctx.oracle("fault_outcome_is_pre_or_post");
        let now = dump(&s.conn).map_err(|e| v("dump_readable", e.to_string()))?;
        let now2 = dump_in_read_txn(&conn2).map_err(|e| v("dump_readable", e))?;
        if let Some(n2) = &now2 {
            if *n2 != now {
                return Err(v("second_connection_sees_same_state", format!("after {fault_desc} a second connection sees a different state: {}", dump_diff(&now, n2))));
            }
        }
        match (&res, now == pre, now == post) {
            (Err(_), true, _) => {
                ctx.shape("err_pre");
            }
            (Ok(_), _, true) => {
                if fired && changed {
                    ctx.probe("fault_absorbed_or_after_commit");
                }
                ctx.shape("ok_post");
                // the operation took effect; restore the pre-state for the next attempt from a fresh copy
                if changed {
                    drop(std::mem::replace(&mut conn2, Connection::open_in_memory().unwrap()));
                    restore(s, &scratch, &pre)?;
                    conn2 = open_conn(&s.path, s.cfg.wal);
                }
            }
            (Err(_), false, true) if probe.commits.get() >= commits && commits > 0 => {
                // the failure landed after the operation's final commit (a read that follows it): the write is
                // complete and the caller is told to retry, which is idempotent (checked by the retry below)
                ctx.probe("error_after_final_commit");
                ctx.shape("err_post_after_commit");
                drop(std::mem::replace(&mut conn2, Connection::open_in_memory().unwrap()));
                restore(s, &scratch, &pre)?;
                conn2 = open_conn(&s.path, s.cfg.wal);
            }
            (Err(e), false, _) => {
                let what = if now == post { "the complete post-state".to_string() } else { format!("a state that is neither pre nor post ({})", dump_diff(&pre, &now)) };
                return Err(v("error_leaves_database_unchanged", format!("returned Err({e}) under {fault_desc} but the database now holds {what}")));
            }
            (Ok(_), _, false) => {
                let what = if now == pre { "unchanged although the reference run changed it".to_string() } else { format!("neither pre nor post ({})", dump_diff(&post, &now)) };
                return Err(v("ok_means_complete_post_state", format!("returned Ok under {fault_desc} but the database is {what}")));
            }
        }
        // observations from inside the operation
        for (k, d, summary) in probe.snapshots.borrow().iter() {
            ctx.oracle("snapshot_is_pre_or_post");
            ctx.fault("second_conn_snapshot@step");
            match d {
                Err(e) => return Err(v("snapshot_readable", format!("second connection at step {k}: {e}"))),
                Ok(None) => {
                    ctx.probe("busy_seen");
                }
                Ok(Some(d)) => {
                    if *d != pre && *d != post {
                        return Err(v("snapshot_is_pre_or_post", format!("a second connection reading inside one read transaction at VM step {k} of the writer saw a half-applied state: vs pre {}; vs post {}", dump_diff(&pre, d), dump_diff(&post, d))));
                    }
                    ctx.shape(if *d == pre { "snap_pre" } else { "snap_post" });
                }
            }
            let _ = summary;
        }
        for (k, img) in probe.crash_images.borrow().iter() {
            ctx.oracle("crash_image_is_pre_or_post");
            ctx.fault("crash_image@step");
            let c = Connection::open(img).map_err(|e| v("crash_image_opens", e.to_string()))?;
            let had_journal = files_of(img).iter().skip(1).any(|f| f.exists());
            let d = dump(&c).map_err(|e| v("crash_image_opens", format!("recovery of the image taken at step {k} failed: {e}")))?;
            if had_journal {
                ctx.probe("hot_journal_or_wal_recovered");
            }
            if d != pre && d != post {
                return Err(v("crash_image_is_pre_or_post", format!("the database image taken at VM step {k} recovers to a half-applied state: vs pre {}; vs post {}", dump_diff(&pre, &d), dump_diff(&post, &d))));
            }
        }
    }

    // ---- 5. direction B: the writer commits in the middle of a transactional multi-statement read
    if steps > 0 && changed {
        ctx.oracle("reader_snapshot_stable_under_concurrent_commit");
        let at = 1 + ch.below("k.readerB", 400);
        let env_b = Env::of(s);
        let conn_ptr = SendPtr(&mut s.conn as *mut Connection);
        let c2_ptr = SendPtr(&conn2 as *const Connection as *mut Connection);
        let mut rng = rng0.clone();
        let op2 = op.clone();
        let (reader_view, writer_res) = on_fresh_thread(thread_seed, knobs, move || {
            let c2 = unsafe { &*c2_ptr.get() };
            let cnt = Rc::new(Cell::new(0u64));
            let wres: Rc<RefCell<Option<Result<Result<String, String>, String>>>> = Rc::new(RefCell::new(None));
            let (cnt2, wres2) = (cnt.clone(), wres.clone());
            let envp = SendPtr(&env_b as *const Env as *mut Env);
            let rngp = SendPtr(&mut rng as *mut ChaChaRng);
            let opp = op2.clone();
            let h = move || -> bool {
                let k = cnt2.get() + 1;
                cnt2.set(k);
                if k == at {
                    let conn = unsafe { &mut *conn_ptr.get() };
                    let env = unsafe { &*envp.get() };
                    let rng = unsafe { &mut *rngp.get() };
                    FIRE_AT.with(|a| a.set(0));
                    *wres2.borrow_mut() = Some(catch(|| apply_op(conn, rng, env, &opp)));
                }
                false
            };
            // SAFETY of the closure's non-Send captures: installed and run on this thread only
            struct H<F>(F);
            unsafe impl<F> Send for H<F> {}
            let hh = H(h);
            c2.progress_handler(1, Some(move || {
                let f = &hh;
                (f.0)()
            }));
            let view = dump_in_read_txn(c2);
            c2.progress_handler(1, None::<fn() -> bool>);
            let w = wres.borrow_mut().take();
            (view, w)
        });
        ctx.fault("writer_commit_inside_reader_txn");
        match writer_res {
            None => {
                // the read finished before step `at`
                ctx.shape("readerB_short");
            }
            Some(Err(m)) => return Err(Violation::keyed("no_panic", format!("panic:{}", crate::runner::panic_site(&m)), format!("{kind} panicked while a reader was in progress: {m}"))),
            Some(Ok(wr)) => {
                let now = dump(&s.conn).map_err(|e| v("dump_readable", e.to_string()))?;
                match (&wr, now == pre, now == post) {
                    (Err(_), true, _) => {
                        ctx.probe("busy_seen");
                    }
                    (Ok(_), _, true) => {
                        drop(std::mem::replace(&mut conn2, Connection::open_in_memory().unwrap()));
                        restore(s, &scratch, &pre)?;
                        conn2 = open_conn(&s.path, s.cfg.wal);
                    }
                    _ => return Err(v("writer_under_reader_is_pre_or_post", format!("writer returned {:?} while a read transaction was open on another connection; database is neither consistent outcome ({})", wr.as_ref().map(|_| "Ok").map_err(|e| e.clone()), dump_diff(&pre, &now)))),
                }
                match reader_view {
                    Err(e) => return Err(v("snapshot_readable", e)),
                    Ok(None) => {
                        ctx.probe("busy_seen");
                    }
                    Ok(Some(d)) => {
                        if d != pre && d != post {
                            return Err(v("reader_snapshot_stable_under_concurrent_commit", format!("a read transaction during which the writer ran (at reader VM step {at}) observed a mixed state: vs pre {}; vs post {}", dump_diff(&pre, &d), dump_diff(&post, &d))));
                        }
                    }
                }
            }
        }
    }
    // ---- 5b. the same with the library's own multi-statement reads on the other connection: each call's answer is
    // the answer on the pre-state or on the post-state, never a blend of the two
    if steps > 0 && changed {
        ctx.oracle("library_read_consistent_under_concurrent_commit");
        let accounts_b = s.accounts.clone();
        let (net_b, clock_b) = (s.net, s.clock.clone());
        let pre_copy = scratch.join("pre").join("wallet.db");
        // what the reader asks about is fixed beforehand, from the pre-state
        let args_b: Vec<Vec<zcash_pool_migration::engine::MigrationTransaction>> = {
            let c = open_conn(&pre_copy, false);
            accounts_b.iter().map(|a| crate::migration::pending_transactions(net_b, &c, *a)).collect()
        };
        let expect = |path: &std::path::Path| -> Vec<(String, String)> {
            let c = open_conn(path, false);
            lib_read(&c, net_b, &clock_b, &accounts_b, &args_b)
        };
        let want_pre = expect(&pre_copy);
        let want_post = expect(&ref_path);
        if want_pre != want_post {
            ctx.probe("library_read_distinguishes_pre_and_post");
            let (total_steps, marks) = {
                // how long the reader runs on its own, and where each oracle call starts
                LIB_STEP.with(|c| c.set(0));
                LIB_MARKS.with(|m| m.borrow_mut().clear());
                conn2.progress_handler(1, Some(move || {
                    LIB_STEP.with(|c| c.set(c.get() + 1));
                    false
                }));
                let _ = lib_read(&conn2, net_b, &clock_b, &accounts_b, &args_b);
                conn2.progress_handler(1, None::<fn() -> bool>);
                (LIB_STEP.with(|c| c.get()).max(1), LIB_MARKS.with(|m| m.borrow().clone()))
            };
            // half of the time right after the start of one of the migration-oracle calls (where a read that is not
            // covered by the call's read transaction would sit), otherwise anywhere
            let at = if !marks.is_empty() && ch.chance("k.readerLib.at_call_start", 1, 2) {
                ctx.probe("commit_aimed_at_start_of_oracle_call");
                (marks[ch.idx("k.readerLib.call", marks.len())] + 1 + ch.below("k.readerLib.off", 60)).min(total_steps)
            } else {
                1 + ch.below("k.readerLib", total_steps)
            };
            let env_b = Env::of(s);
            let conn_ptr = SendPtr(&mut s.conn as *mut Connection);
            let c2_ptr = SendPtr(&conn2 as *const Connection as *mut Connection);
            let mut rng = rng0.clone();
            let op2 = op.clone();
            let accounts_c = accounts_b.clone();
            let clock_c = clock_b.clone();
            let args_c = args_b.clone();
            let (reader_view, writer_res) = on_fresh_thread(thread_seed, knobs, move || {
                let c2 = unsafe { &*c2_ptr.get() };
                let cnt = Rc::new(Cell::new(0u64));
                let wres: Rc<RefCell<Option<Result<Result<String, String>, String>>>> = Rc::new(RefCell::new(None));
                let (cnt2, wres2) = (cnt.clone(), wres.clone());
                let envp = SendPtr(&env_b as *const Env as *mut Env);
                let rngp = SendPtr(&mut rng as *mut ChaChaRng);
                let opp = op2.clone();
                let h = move || -> bool {
                    let k = cnt2.get() + 1;
                    cnt2.set(k);
                    if k == at {
                        let conn = unsafe { &mut *conn_ptr.get() };
                        let env = unsafe { &*envp.get() };
                        let rng = unsafe { &mut *rngp.get() };
                        FIRE_AT.with(|a| a.set(0));
                        *wres2.borrow_mut() = Some(catch(|| apply_op(conn, rng, env, &opp)));
                    }
                    false
                };
                struct H<F>(F);
                unsafe impl<F> Send for H<F> {}
                let hh = H(h);
                c2.progress_handler(1, Some(move || {
                    let f = &hh;
                    (f.0)()
                }));
                let view = catch(|| lib_read(c2, net_b, &clock_c, &accounts_c, &args_c));
                c2.progress_handler(1, None::<fn() -> bool>);
                let w = wres.borrow_mut().take();
                (view, w)
            });
            ctx.fault("writer_commit_inside_library_read");
            let view = reader_view.map_err(|m| Violation::keyed("no_panic", format!("panic:{}", crate::runner::panic_site(&m)), format!("a library read panicked while {kind} ran on the other connection: {m}")))?;
            if let Some(wr) = writer_res {
                let wr = wr.map_err(|m| Violation::keyed("no_panic", format!("panic:{}", crate::runner::panic_site(&m)), format!("{kind} panicked while a library read was in progress: {m}")))?;
                let now = dump(&s.conn).map_err(|e| v("dump_readable", e.to_string()))?;
                match (&wr, now == pre, now == post) {
                    (Err(_), true, _) => ctx.probe("busy_seen"),
                    (Ok(_), _, true) => {
                        drop(std::mem::replace(&mut conn2, Connection::open_in_memory().unwrap()));
                        restore(s, &scratch, &pre)?;
                        conn2 = open_conn(&s.path, s.cfg.wal);
                    }
                    _ => return Err(v("writer_under_reader_is_pre_or_post", format!("writer returned {:?} while a library read was in progress on another connection; database is neither consistent outcome ({})", wr.as_ref().map(|_| "Ok").map_err(|e| e.clone()), dump_diff(&pre, &now)))),
                }
                let find = |m: &Vec<(String, String)>, k: &str| m.iter().find(|(kk, _)| kk == k).map(|(_, v)| v.clone());
                for (k, val) in &view {
                    if val.contains("database is locked") || val.contains("busy") {
                        ctx.probe("busy_seen");
                        continue;
                    }
                    // only calls that are defined on both states (same account, same migration transaction) have an
                    // expected answer on each side
                    let (Some(a), Some(b)) = (find(&want_pre, k), find(&want_post, k)) else { continue };
                    let (a, b) = (Some(a), Some(b));
                    if a.as_ref() != Some(val) && b.as_ref() != Some(val) {
                        return Err(v("library_read_consistent_under_concurrent_commit", format!("while {kind} committed on the other connection (at reader VM step {at} of {total_steps}), the library call {k} answered {val:?}; on the pre-state it answers {a:?}, on the post-state {b:?}")));
                    }
                }
            }
        }
    }
    drop(conn2);

    // ---- 6. retry: the un-faulted operation must now give the reference post-state
    let env = Env::of(s);
    let mut rng = rng0.clone();
    let conn_ptr = SendPtr(&mut s.conn as *mut Connection);
    let res = on_fresh_thread(thread_seed, knobs, move || {
        let conn = unsafe { &mut *conn_ptr.get() };
        FIRE_AT.with(|a| a.set(0));
        let r = catch(|| apply_op(conn, &mut rng, &env, op));
        (r, rng)
    });
    let (res, rng_after) = res;
    let res = res.map_err(|m| Violation::keyed("no_panic", format!("panic:{}", crate::runner::panic_site(&m)), format!("{kind} panicked on retry: {m}")))?;
    s.rng = rng_after;
    ctx.oracle("retry_gives_reference_post_state");
    let now = dump(&s.conn).map_err(|e| v("dump_readable", e.to_string()))?;
    if res.is_ok() != ref_ok || now != post {
        return Err(v("retry_gives_reference_post_state", format!("after the failed attempts the un-faulted operation returned {:?} (reference: {}), state vs reference post-state: {}", res.as_ref().map(|_| "Ok"), if ref_ok { "Ok" } else { "Err" }, dump_diff(&post, &now))));
    }
    ctx.state(dump_hash(&now));
    let _ = std::fs::remove_dir_all(&scratch);
    Ok(SweepStats { steps, commits, writes, ref_ok })
}

/// Put the pre-state back (from the reference copy made before the operation).
fn restore(s: &mut WalletSim, scratch: &Path, pre: &Dump) -> Result<(), Violation> {
    // the scratch "pre" copy is taken lazily: the first call copies from ref's sibling "pre"
    let pre_path = scratch.join("pre").join("wallet.db");
    if !pre_path.exists() {
        return Err(Violation::new("harness_restore", "no pre-state copy".to_string()));
    }
    let wal = s.cfg.wal;
    let old = std::mem::replace(&mut s.conn, Connection::open_in_memory().unwrap());
    drop(old);
    for f in files_of(&s.path) {
        let _ = std::fs::remove_file(f);
    }
    for (f, suf) in files_of(&pre_path).iter().zip(["", "-journal", "-wal", "-shm"]) {
        if f.exists() {
            let mut t = s.path.as_os_str().to_owned();
            t.push(suf);
            std::fs::copy(f, PathBuf::from(t)).map_err(|e| Violation::new("harness_restore", e.to_string()))?;
        }
    }
    s.conn = open_conn(&s.path, wal);
    install_write_triggers(&s.conn).map_err(|e| Violation::new("harness_triggers", e.to_string()))?;
    let d = dump(&s.conn).map_err(|e| Violation::new("dump_readable", e.to_string()))?;
    if d != *pre {
        return Err(Violation::new("harness_restore", format!("restored database differs from the pre-state: {}", dump_diff(pre, &d))));
    }
    Ok(())
}

thread_local! {
    /// VM step counter of the connection a library read runs on, and the counter's value at the start of each
    /// satisfiability call (so that a concurrent commit can be aimed at the first steps of a call)
    static LIB_STEP: Cell<u64> = const { Cell::new(0) };
    static LIB_MARKS: RefCell<Vec<u64>> = const { RefCell::new(Vec::new()) };
}

/// The library's documented snapshot reads, one entry per call (each must be consistent in itself whatever a
/// writer does meanwhile). `args` are the migration transactions asked about, per account, fixed beforehand.
fn lib_read(c: &Connection, net: LocalNetwork, clock: &SimClock, accounts: &[AccountUuid], args: &[Vec<zcash_pool_migration::engine::MigrationTransaction>]) -> Vec<(String, String)> {
    let mut out = vec![];
    {
        let db = WalletDb::from_connection(c, net, clock.clone(), ());
        out.push(("get_wallet_summary".to_string(), match db.get_wallet_summary(ConfirmationsPolicy::MIN) {
            Ok(s) => summary_string(&s, accounts),
            Err(e) => format!("ERR {e}"),
        }));
    }
    for (i, a) in accounts.iter().enumerate() {
        out.extend(crate::migration::snapshot_reads(net, c, *a, &args[i], &format!("acct{i}"), &|| LIB_MARKS.with(|m| m.borrow_mut().push(LIB_STEP.with(|c| c.get())))));
    }
    out
}

fn summary_string(s: &Option<zcash_client_backend::data_api::WalletSummary<AccountUuid>>, accounts: &[AccountUuid]) -> String {
    match s {
        None => "none".into(),
        Some(s) => {
            let mut v = vec![format!("tip={} fs={}", u32::from(s.chain_tip_height()), u32::from(s.fully_scanned_height()))];
            for a in accounts {
                if let Some(b) = s.account_balances().get(a) {
                    v.push(format!("{}/{}/{}/{}", u64::from(b.sapling_balance().total()), u64::from(b.orchard_balance().total()), u64::from(b.ironwood_balance().total()), u64::from(b.unshielded_balance().total())));
                }
            }
            v.join(" ")
        }
    }
}

// ---------------------------------------------------------------- scenario

pub struct Atomic;

fn pick_op(s: &mut WalletSim, ch: &mut Choices) -> Option<Op> {
    let tip = s.chain.tip();
    let base = s.cfg.base_height;
    let k = ch.weighted("c02.op", &[30, 12, 8, 5, 4, 5, 6, 6, 8, 6, 6, 4, 6, 8, 4, 6, 8, 3, 7]);
    Some(match k {
        0 => {
            // a scan: suggested range, or arbitrary, possibly illegal (non-contiguous state is the wallet's problem)
            let from = base + 1 + ch.below("from", (tip - base).max(1) as u64) as u32;
            Op::Scan { from, limit: 1 + ch.idx("limit", 30) }
        }
        1 => {
            let maxs = s.scanned.iter().next_back().copied().unwrap_or(base);
            let lo = maxs.saturating_sub(40).max(base);
            Op::Truncate { h: lo + ch.below("h", (maxs - lo + 1) as u64) as u32 }
        }
        2 => Op::UpdateTip { h: tip.saturating_sub(ch.below("behind", 3) as u32).max(base + 1) },
        3 => Op::CreateAccount,
        4 => Op::ImportUfvk { idx: 7 + ch.below("idx", 3) as u32 },
        5 => Op::DeleteAccount { i: ch.idx("acct", s.accounts.len()) },
        6 => Op::PutSubtreeRoots { pool: POOLS[ch.idx("pool", 3)], start: ch.below("start", 3), n: 1 + ch.idx("n", 3) },
        7 => Op::NextAddress { i: ch.idx("acct", s.accounts.len()) },
        8 => Op::PutUtxo { i: ch.idx("acct", s.accounts.len()), value: 1000 + ch.below("value", 1_000_000), h: base + 1 + ch.below("h", (tip - base).max(1) as u64) as u32, salt: ch.u64("salt") },
        9 => {
            // a transaction the wallet knows, if any
            let txid: Option<Vec<u8>> = s.conn.query_row("SELECT txid FROM transactions ORDER BY id_tx LIMIT 1 OFFSET ?", [ch.below("tx.i", 8) as i64], |r| r.get(0)).ok();
            let mut t = [0u8; 32];
            match txid {
                Some(x) if x.len() == 32 => t.copy_from_slice(&x),
                _ => t = ch.bytes32("tx.random"),
            }
            Op::SetTxStatus { txid: t, mined: if ch.chance("mined", 1, 2) { Some(base + 1 + ch.below("h", (tip - base).max(1) as u64) as u32) } else { None } }
        }
        10 => {
            let a = base + 1 + ch.below("a", (tip - base).max(1) as u64) as u32;
            Op::QueueRescans { a, b: (a + 1 + ch.below("len", 20) as u32).min(tip + 1).max(a + 1), prio: ch.below("prio", 4) as u8 }
        }
        11 => {
            let maxs = s.scanned.iter().next_back().copied().unwrap_or(base);
            let lo = maxs.saturating_sub(20).max(base);
            Op::TruncateToChainState { h: lo + ch.below("h", (maxs - lo + 1) as u64) as u32 }
        }
        12 => {
            let maxs = s.scanned.iter().next_back().copied().unwrap_or(base);
            let lo = maxs.saturating_sub(30).max(base);
            Op::RewindToChainState { h: (lo + ch.below("h", (maxs - lo + 2) as u64) as u32).min(tip), reset: ch.chance("reset", 1, 3) }
        }
        13 => {
            // lock a few outputs of one account, across pool tables where it has any
            let a = s.accounts[ch.idx("acct", s.accounts.len())];
            let all = wallet_outputs(&s.conn, a);
            if all.is_empty() {
                return None;
            }
            let n = 1 + ch.idx("n", 4.min(all.len()));
            let mut refs = vec![];
            for j in 0..n {
                // spread over the pool tables: take every (len / n)-th
                refs.push(all[(j * all.len() / n + ch.idx("off", all.len())) % all.len()]);
            }
            refs.sort();
            refs.dedup();
            Op::LockOutputs { refs, owner: 1 + ch.below("owner", 3) as u8, expiry: tip + 1 + ch.below("for", 30) as u32 }
        }
        14 => {
            let a = s.accounts[ch.idx("acct", s.accounts.len())];
            let all = wallet_outputs(&s.conn, a);
            if all.is_empty() {
                return None;
            }
            Op::UnlockOutput { r: all[ch.idx("which", all.len())], owner: 1 + ch.below("owner", 3) as u8 }
        }
        15 => Op::ClearLocks { i: ch.idx("acct", s.accounts.len()) },
        16 => {
            let i = ch.idx("acct", s.accounts.len());
            let maxs = s.scanned.iter().next_back().copied().unwrap_or(base + 1);
            Op::StoreMigration { i, salt: ch.u64("salt"), lo: maxs.saturating_sub(25).max(base + 1), hi: maxs.max(base + 1), nfs: orchard_nullifiers(&s.conn, s.accounts[i]) }
        }
        17 => Op::CancelMigration { i: ch.idx("acct", s.accounts.len()) },
        _ => {
            // anywhere from below the birthday to just above the chain tip, so that the region below the height
            // holds several queue entries of different priorities most of the time
            let h = base.saturating_sub(2) + ch.below("h", (tip - base + 5) as u64) as u32;
            Op::PruneQueueBelow { h, retain: ch.below("retain", 5) as u8 }
        }
    })
}

impl Scenario for Atomic {
    fn property(&self) -> &'static str {
        "C02"
    }
    fn name(&self) -> &'static str {
        "atomic"
    }
    fn level(&self) -> &'static str {
        "fault_enumeration"
    }
    fn prepare(&self) {
        let _ = template_db();
    }
    fn run(&self, ch: &mut Choices, ctx: &mut RunCtx) -> SimResult {
        let mut cfg = draw_cfg(ch, false);
        cfg.tx_density = 70;
        ctx.config = cfg_json(&cfg);
        ctx.shape(if cfg.wal { "wal" } else { "delete" });
        let seed = ch.u64("chain.seed");
        let mut s = WalletSim::new(cfg, seed, ctx)?;
        // ---- reach a non-trivial state without faults
        let n0 = 8 + ch.below("init.blocks", 50);
        {
            let mut r = ch.fork_rng("init.chain");
            for _ in 0..n0 {
                s.gen_block(&mut r, ctx);
            }
        }
        let warm = ch.below("warmup", 5);
        for _ in 0..warm {
            let limit = 2 + ch.below("w.limit", 25) as usize;
            match s.sync_step(limit, ch.chance("w.end", 1, 3), ctx) {
                Ok(_) => {}
                Err(_) => return Ok(()),
            }
        }
        if ch.chance("w.fork", 1, 4) && s.chain.tip() > s.cfg.base_height + 6 {
            let d = 1 + ch.below("w.depth", 5) as u32;
            let t = s.chain.tip();
            s.fork_at(t - d, ctx);
            let mut r = ch.fork_rng("w.fork.blocks");
            for _ in 0..d + 3 {
                s.gen_block(&mut r, ctx);
            }
            // the client rewinds before anything else touches the wallet
            for _ in 0..3 {
                if s.sync_step(10, false, ctx).is_err() {
                    return Ok(());
                }
            }
        }
        // ---- without faults: reservations across pool tables and a stored pool migration, so that the swept
        // operations (rewinds, scans, lock clearing, cancel) have multi-table work to do
        if s.dirty_fork.is_none() {
            let env = Env::of(&s);
            if ch.chance("pre.locks", 1, 2) {
                for a in s.accounts.clone() {
                    let all = wallet_outputs(&s.conn, a);
                    if all.is_empty() {
                        continue;
                    }
                    let mut refs: Vec<(u8, [u8; 32], u32)> = vec![];
                    for code in 0..4u8 {
                        if let Some(r) = all.iter().find(|r| r.0 == code) {
                            refs.push(*r);
                        }
                    }
                    let tip = s.chain.tip();
                    let op = Op::LockOutputs { refs, owner: 1 + ch.below("pre.owner", 3) as u8, expiry: tip + 5 + ch.below("pre.for", 30) as u32 };
                    let mut rng = s.rng.clone();
                    if apply_op(&mut s.conn, &mut rng, &env, &op).is_ok() {
                        ctx.probe("prelude_locks_across_pools");
                    }
                }
            }
            if ch.chance("pre.migration", 1, 2) && !s.accounts.is_empty() {
                let i = ch.idx("pre.mig.acct", s.accounts.len());
                let maxs = s.scanned.iter().next_back().copied().unwrap_or(s.cfg.base_height + 1);
                let op = Op::StoreMigration { i, salt: ch.u64("pre.mig.salt"), lo: maxs.saturating_sub(25).max(s.cfg.base_height + 1), hi: maxs.max(s.cfg.base_height + 1), nfs: orchard_nullifiers(&s.conn, s.accounts[i]) };
                let mut rng = s.rng.clone();
                if apply_op(&mut s.conn, &mut rng, &env, &op).is_ok() {
                    ctx.probe("prelude_migration_stored");
                }
            }
        }
        let n_ops = 1 + ch.below("n_ops", 4);
        let positions = 6 + ch.idx("positions", 10);
        for _ in 0..n_ops {
            if !ch.more() {
                break;
            }
            ch.open("op");
            if s.dirty_fork.is_some() {
                ch.close();
                break;
            }
            let Some(op) = pick_op(&mut s, ch) else {
                ch.close();
                continue;
            };
            ctx.op(op.kind());
            // the pre-state copy used to restore after an attempt that took effect
            let scratch = s.path.parent().unwrap().join(format!("c02-{}", ctx.seq));
            std::fs::create_dir_all(&scratch).unwrap();
            // checkpoint WAL so that the copy is self-contained
            if s.cfg.wal {
                let _ = s.conn.execute_batch("PRAGMA wal_checkpoint(TRUNCATE)");
            }
            copy_db(&s.path, &scratch, "pre");
            let st = match sweep(&mut s, &op, ch, ctx, positions) {
                Ok(st) => st,
                Err(v) => return ctx.report(v),
            };
            ctx.time("vm_steps_reference", st.steps);
            ctx.time("row_writes_reference", st.writes);
            // keep the model's scanned set roughly in step (only used to choose later operations)
            match &op {
                Op::Scan { from, limit } if st.ref_ok => {
                    for h in *from..(*from + *limit as u32).min(s.chain.tip() + 1) {
                        s.scanned.insert(h);
                    }
                }
                Op::Truncate { h } | Op::TruncateToChainState { h } if st.ref_ok => {
                    let h = *h;
                    s.scanned.retain(|x| *x <= h);
                }
                Op::DeleteAccount { i } if st.ref_ok => {
                    s.accounts.remove(*i);
                    if s.accounts.is_empty() {
                        ch.close();
                        break;
                    }
                }
                _ => {}
            }
            ch.close();
        }
        Ok(())
    }
    fn runs(&self, tier: Tier) -> u64 {
        match tier {
            Tier::Quick => 700,
            Tier::Thorough => 12_000,
        }
    }
    fn budget_s(&self, tier: Tier) -> u64 {
        match tier {
            Tier::Quick => 130,
            Tier::Thorough => 1500,
        }
    }
    fn rule(&self) -> &'static str {
        "one run = one wallet state reached by a fault-free history, then 1-4 write operations, each swept: reference run on a copy, then the same operation on the original with SQLITE_INTERRUPT at sampled VM steps, a statement-level ABORT at sampled row writes (transaction stays open), a refused commit, crash images and second-connection snapshots taken from inside the writer's progress handler, the writer run from inside a reader's progress handler, and an un-faulted retry; evaluations counted in coverage.oracle_evaluations; non-trivial = a fault fired inside an operation; distinct = distinct hash of (journal mode, operation kinds, reference outcome, per-attempt outcome classes)"
    }
    fn components(&self) -> serde_json::Value {
        json!({"zcash_client_sqlite write paths (put_blocks, truncate, tip update, account create/import/delete, subtree roots, address generation, UTXO, tx status, rescans, queue pruning, rewinds, output locks, stored pool migrations) and bundled SQLite": "real",
               "failure source": "simulator (progress handler, TEMP triggers, commit hook on the harness-owned connection)",
               "second connection / crash recovery": "real SQLite on copies of the real files"})
    }
    fn assumptions(&self) -> Vec<&'static str> {
        vec![
            "the disk below SQLite is real tmpfs: crash images contain everything written so far (sector-level torn or lost writes are SQLite's own atomic-commit protocol and are not injected)",
            "states are compared through a content-keyed dump of every user table (assigned row ids and foreign keys to them replaced by content labels)",
            "reference run, faulted attempts and retry each execute on a fresh thread with identical hash seeds and a clone of the wallet RNG, so freshly drawn identifiers coincide",
        ]
    }
    fn expected_probes(&self) -> Vec<&'static str> {
        vec!["busy_seen", "hot_journal_or_wal_recovered", "fault_absorbed_or_after_commit", "multi_commit_seen"]
    }
    fn fault_kinds(&self) -> Vec<&'static str> {
        vec!["sql_interrupt@step", "sql_stmt_abort@write_n", "sql_commit_refused", "crash_image@step", "second_conn_snapshot@step", "writer_commit_inside_reader_txn", "writer_commit_inside_library_read"]
    }
    fn time_note(&self) -> &'static str {
        "simulated time = SQLite VM steps and row writes of the reference runs (fault positions are drawn inside them)"
    }
}
