//! C17 / C18 — the pool-migration engine under a discrete-event simulation whose clock is the block
//! height: consumer (the documented drive loop), node, miner, reorgs, foreign spends, a wallet scan
//! that lags, an estimate that leads or trails, sleeps, crashes between submitting and recording,
//! store errors, and a save/load cycle through the real SQLite store after every persisted write.

use std::collections::{BTreeMap, BTreeSet};
use std::num::NonZeroU32;

use proptest::strategy::{Strategy, ValueTree};
use proptest::test_runner::{Config, RngAlgorithm, TestRng, TestRunner};
use rusqlite::Connection;
use serde_json::json;
use zcash_client_sqlite::pool_migration::orchard_ironwood::PoolMigrations;
use zcash_pool_migration::denomination::DenominationPlan;
use zcash_pool_migration::engine::{
    MigrationState, MigrationStatus, MigrationTransaction, MigrationTransferId, MigrationTxKind, MigrationTxState, PoolMigrationRead, PoolMigrationWrite, ProvedTransaction,
};
use zcash_pool_migration::preparation::PreparationPlan;
use zcash_pool_migration::satisfiability::{advance_migration, classify_input_observations, AdvanceConfig, DuenessTargets, InputObservation, ReorgSettleDepth, ReplanThreshold, StepSatisfiability};
use zcash_pool_migration::scheduling::{self, AnchorBucketInterval, SchedulingParams, WakeupParams};
use zcash_pool_migration::state::AdvanceStep;
use zcash_pool_migration::testing::arb_migration_state;
use zcash_protocol::consensus::BlockHeight;
use zcash_protocol::value::Zatoshis;
use zcash_protocol::TxId;

use crate::choices::{mix, Choices, SubRng};
use crate::runner::catch;
use crate::sim::{RunCtx, Scenario, SimResult, Tier, Violation};
use crate::wallet::{full_net, open_conn, scratch_root, template_db, SimClock};

// ---------------------------------------------------------------- simulator-owned RNG streams

#[derive(Clone, Copy, Debug, PartialEq)]
pub enum RngKind {
    Uniform,
    ZerosHeavy,
    OnesHeavy,
    LowEntropy,
    Counter,
}

pub struct SimRng {
    kind: RngKind,
    inner: SubRng,
    ctr: u64,
    pub draws: u64,
    pub budget: u64,
}

impl SimRng {
    pub fn new(kind: RngKind, seed: u64) -> Self {
        SimRng { kind, inner: SubRng::new(seed), ctr: seed & 0xffff, draws: 0, budget: 2_000_000 }
    }
    fn word(&mut self) -> u64 {
        self.draws += 1;
        if self.draws > self.budget {
            panic!("zsim: rng draw budget exhausted — a rejection loop does not terminate under the {:?} stream", self.kind);
        }
        match self.kind {
            RngKind::Uniform => self.inner.next(),
            RngKind::ZerosHeavy => self.inner.next() & self.inner.next() & self.inner.next(),
            RngKind::OnesHeavy => self.inner.next() | self.inner.next() | self.inner.next(),
            RngKind::LowEntropy => {
                let b = self.inner.next() & 0xff;
                b * 0x0101_0101_0101_0101
            }
            RngKind::Counter => {
                self.ctr = self.ctr.wrapping_add(0x9E37_79B9_7F4A_7C15);
                self.ctr
            }
        }
    }
}
impl rand_core::RngCore for SimRng {
    fn next_u32(&mut self) -> u32 {
        (self.word() >> 32) as u32
    }
    fn next_u64(&mut self) -> u64 {
        self.word()
    }
    fn fill_bytes(&mut self, dest: &mut [u8]) {
        for ch in dest.chunks_mut(8) {
            let w = self.word().to_le_bytes();
            ch.copy_from_slice(&w[..ch.len()]);
        }
    }
    fn try_fill_bytes(&mut self, dest: &mut [u8]) -> Result<(), rand_core::Error> {
        self.fill_bytes(dest);
        Ok(())
    }
}
impl rand_core::CryptoRng for SimRng {}

// ---------------------------------------------------------------- the world

#[derive(Clone, Debug)]
struct Pending {
    include_at: Option<u32>, // None = never mined
    expiry: u32,
}

struct World {
    tip: u32,
    scanned: u32,
    skew: i32,
    /// txid -> mined height on the current chain
    mined: BTreeMap<[u8; 32], u32>,
    mempool: BTreeMap<[u8; 32], Pending>,
    /// nullifier -> height at which a foreign transaction spent it
    foreign_spent: BTreeMap<[u8; 32], u32>,
    /// for each migration transaction (by txid): the transactions whose outputs fund it (by txid)
    funded_by: BTreeMap<[u8; 32], Vec<[u8; 32]>>,
    /// our own transactions' nullifiers (txid -> nullifiers)
    nfs_of: BTreeMap<[u8; 32], Vec<[u8; 32]>>,
}

impl World {
    fn mine_block(&mut self, ctx: &mut RunCtx) {
        self.tip += 1;
        let h = self.tip;
        let ready: Vec<[u8; 32]> = self.mempool.iter().filter(|(_, p)| p.include_at.map(|a| a <= h).unwrap_or(false)).map(|(t, _)| *t).collect();
        for t in ready {
            let p = self.mempool.remove(&t).unwrap();
            // consensus: not after expiry, inputs unspent, funding transactions mined
            let spent = self.nfs_of.get(&t).map(|n| n.iter().any(|x| self.foreign_spent.get(x).map(|s| *s < h).unwrap_or(false))).unwrap_or(false);
            let funded = self.funded_by.get(&t).map(|f| f.iter().all(|x| self.mined.contains_key(x))).unwrap_or(true);
            if h <= p.expiry && !spent && funded {
                self.mined.insert(t, h);
            } else if h <= p.expiry && !spent {
                // wait for its funding transactions
                self.mempool.insert(t, Pending { include_at: Some(h + 1), expiry: p.expiry });
            } else {
                ctx.shape("dropped_from_mempool");
            }
        }
        ctx.time("blocks", 1);
    }
}

/// A structurally valid (empty) PCZT: what every simulated migration transaction stores, so that the engine's real
/// prove functions, which parse the stored artifact, can be used.
fn valid_pczt() -> &'static Vec<u8> {
    static P: std::sync::OnceLock<Vec<u8>> = std::sync::OnceLock::new();
    P.get_or_init(|| {
        let branch: u32 = zcash_protocol::consensus::BranchId::Nu6_3.into();
        pczt::roles::creator::Creator::new(branch, 10_000_000, 133, None, None).expect("creator").build().expect("pczt").serialize().expect("bytes")
    })
}

/// The proving capability the consumer supplies to `prove_transfer` / `prove_preparation`: answers from the simulated
/// chain, and checks (C17) the anchor the engine hands it.
struct SimProver {
    interval: AnchorBucketInterval,
    activation: u32,
    scanned: u32,
    /// about the transaction being proved
    nullifiers: Vec<[u8; 32]>,
    /// highest mined height among its dependencies, as the wallet's scan knows it (None: a dependency is not scanned mined)
    funding: Option<Option<u32>>,
    spent_nullifier: Option<[u8; 32]>,
    inject_other_error: bool,
    complaint: Option<String>,
    anchors_seen: u64,
}

impl zcash_pool_migration::engine::MigrationProver for SimProver {
    type Error = String;
    fn prove_transfer(&mut self, pczt: pczt::Pczt, anchor_boundary: BlockHeight) -> Result<pczt::Pczt, zcash_pool_migration::engine::ProveFailure<String>> {
        use zcash_pool_migration::engine::ProveFailure;
        self.anchors_seen += 1;
        let a = u32::from(anchor_boundary);
        let step = self.interval.block_count().get();
        if a % step != 0 || a <= self.activation {
            self.complaint = Some(format!("the anchor boundary {a} handed to the prover is not a grid boundary (interval {step}) above the activation height {}", self.activation));
        }
        if let Some(Some(f)) = self.funding {
            if f > a {
                self.complaint = Some(format!("the anchor boundary {a} handed to the prover predates the funding note, created at {f}: no witness exists at that boundary"));
            }
        }
        if self.inject_other_error {
            return Err(ProveFailure::Other("zsim: injected prover failure".into()));
        }
        if let Some(nf) = self.spent_nullifier {
            return Err(ProveFailure::InputNotAvailable { nullifier: nf, as_of: BlockHeight::from_u32(self.scanned) });
        }
        if matches!(self.funding, Some(None)) {
            // the funding note is not among the wallet's notes yet
            return Err(ProveFailure::InputNotAvailable { nullifier: self.nullifiers.first().copied().unwrap_or([0; 32]), as_of: BlockHeight::from_u32(self.scanned) });
        }
        Ok(pczt)
    }
    fn prove_preparation(&mut self, pczt: pczt::Pczt, _anchor: BlockHeight) -> Result<pczt::Pczt, zcash_pool_migration::engine::ProveFailure<String>> {
        use zcash_pool_migration::engine::ProveFailure;
        if self.inject_other_error {
            return Err(ProveFailure::Other("zsim: injected prover failure".into()));
        }
        if let Some(nf) = self.spent_nullifier {
            return Err(ProveFailure::InputNotAvailable { nullifier: nf, as_of: BlockHeight::from_u32(self.scanned) });
        }
        if matches!(self.funding, Some(None)) {
            return Err(ProveFailure::InputNotAvailable { nullifier: self.nullifiers.first().copied().unwrap_or([0; 32]), as_of: BlockHeight::from_u32(self.scanned) });
        }
        Ok(pczt)
    }
    fn anchor_bucket_interval(&self) -> AnchorBucketInterval {
        self.interval
    }
    fn lock_spent_notes(&mut self, _pczt: &pczt::Pczt, _lock_expiry_height: BlockHeight) -> Result<Option<zcash_pool_migration::engine::MigrationLockOwner>, String> {
        Ok(None)
    }
}

/// In-memory store + the real SQLite store for every save/load.
struct SimStore<'a> {
    mem: Option<MigrationState>,
    world: *const World,
    sql: Option<(&'a mut Connection, zcash_client_sqlite::AccountUuid)>,
    fail_next: u32,
    calls: u64,
    writes: u64,
    roundtrip_failure: Option<String>,
    sql_error: Option<String>,
}

#[derive(Debug)]
pub struct StoreError(pub String);

impl SimStore<'_> {
    fn world(&self) -> &World {
        unsafe { &*self.world }
    }
    fn maybe_fail(&mut self, what: &str) -> Result<(), StoreError> {
        self.calls += 1;
        if self.fail_next > 0 {
            self.fail_next -= 1;
            if self.fail_next == 0 {
                return Err(StoreError(format!("zsim: injected store error in {what}")));
            }
        }
        Ok(())
    }
    fn save(&mut self, state: &MigrationState) -> Result<(), StoreError> {
        self.writes += 1;
        self.mem = Some(state.clone());
        if let Some((conn, acct)) = self.sql.as_mut() {
            let r = (|| -> Result<Option<MigrationState>, String> {
                let mut pm = PoolMigrations::for_account(full_net(Some(1)), SimClock(std::sync::Arc::new(1_700_000_000.into())), &mut **conn, *acct).map_err(|e| format!("{e:?}"))?;
                pm.replace_migration(state).map_err(|e| format!("replace_migration: {e:?}"))?;
                if state.is_terminal() {
                    pm.latest_migration().map_err(|e| format!("latest_migration: {e:?}"))
                } else {
                    pm.get_migration().map_err(|e| format!("get_migration: {e:?}"))
                }
            })();
            match r {
                Err(e) => self.sql_error = Some(e),
                Ok(None) => self.roundtrip_failure = Some("the migration just saved is not returned by the store".into()),
                Ok(Some(back)) => {
                    if back != *state {
                        self.roundtrip_failure = Some(describe_state_diff(state, &back));
                    } else {
                        // a restart continues from what SQLite returned
                        self.mem = Some(back);
                    }
                }
            }
        }
        Ok(())
    }
}

fn describe_state_diff(a: &MigrationState, b: &MigrationState) -> String {
    if a.status() != b.status() {
        return format!("status {:?} -> {:?}", a.status(), b.status());
    }
    if a.denominations() != b.denominations() {
        return "denomination plan differs".into();
    }
    if a.preparation() != b.preparation() {
        return "preparation plan differs".into();
    }
    if a.anchor_bucket_interval() != b.anchor_bucket_interval() || a.replan_threshold() != b.replan_threshold() {
        return "interval / threshold differ".into();
    }
    if a.transactions().len() != b.transactions().len() {
        return format!("{} vs {} transactions", a.transactions().len(), b.transactions().len());
    }
    for (x, y) in a.transactions().iter().zip(b.transactions().iter()) {
        if x != y {
            return format!("transaction {:?} differs: saved {:?} / loaded {:?}", x.id(), summarize_tx(x), summarize_tx(y));
        }
    }
    "unknown difference".into()
}

fn summarize_tx(t: &MigrationTransaction) -> String {
    format!("kind={:?} state={:?} sched={} exp={} anchor={:?} deps={:?} unsat={:?} fail={:?} nfs={} lock={}", t.kind(), t.state(), u32::from(t.scheduled_height()), u32::from(t.expiry_height()), t.anchor_boundary().map(u32::from), t.depends_on(), t.unsatisfiable(), t.broadcast_failure_at().map(u32::from), t.spend_nullifiers().len(), t.lock_owner().is_some())
}

impl PoolMigrationRead for SimStore<'_> {
    type Error = StoreError;
    fn get_migration(&self) -> Result<Option<MigrationState>, StoreError> {
        Ok(self.mem.clone().filter(|m| !m.is_terminal()))
    }
    fn check_step_satisfiability(&self, tx: &MigrationTransaction, _settle: ReorgSettleDepth) -> Result<StepSatisfiability, StoreError> {
        // interior mutability is not available through &self; failures are injected on the write path and on mined_height
        let w = self.world();
        let as_of = BlockHeight::from_u32(w.scanned);
        let txid: [u8; 32] = *tx.txid().as_ref();
        let mut obs = vec![];
        let funded = w.funded_by.get(&txid).map(|f| f.iter().all(|x| w.mined.get(x).map(|h| *h <= w.scanned).unwrap_or(false))).unwrap_or(true);
        for nf in tx.spend_nullifiers() {
            let o = if let Some(h) = w.foreign_spent.get(nf) {
                if *h <= w.scanned {
                    InputObservation::SeenSpent
                } else if funded {
                    InputObservation::Unspent
                } else {
                    InputObservation::Unknown
                }
            } else if w.mined.get(&txid).map(|h| *h <= w.scanned).unwrap_or(false) {
                InputObservation::SeenSpent
            } else if funded {
                InputObservation::Unspent
            } else {
                InputObservation::Unknown
            };
            obs.push((*nf, o));
        }
        if obs.is_empty() {
            return Err(StoreError("empty nullifier cache on a non-mined transaction".into()));
        }
        let expired = u32::from(tx.expiry_height()) <= w.scanned;
        Ok(classify_input_observations(as_of, expired, &obs))
    }
    fn mined_height(&self, txid: TxId) -> Result<Option<BlockHeight>, StoreError> {
        let w = self.world();
        Ok(w.mined.get(txid.as_ref()).filter(|h| **h <= w.scanned).map(|h| BlockHeight::from_u32(*h)))
    }
}

impl PoolMigrationWrite for SimStore<'_> {
    fn replace_migration(&mut self, state: &MigrationState) -> Result<(), StoreError> {
        self.maybe_fail("replace_migration")?;
        self.save(state)
    }
    fn update_transaction(&mut self, id: MigrationTransferId, st: MigrationTxState) -> Result<(), StoreError> {
        self.maybe_fail("update_transaction")?;
        let _ = (id, st);
        Ok(())
    }
    fn store_proved_transaction(&mut self, state: &mut MigrationState, proven: ProvedTransaction) -> Result<(), StoreError> {
        proven.apply(state);
        self.replace_migration(state)
    }
}

// ---------------------------------------------------------------- independent reference formulas

fn ref_expiry(h: u32) -> u32 {
    const M: u32 = 34_560;
    (h - h % M).saturating_add(2 * M)
}

fn rank(s: &MigrationTxState) -> u8 {
    match s {
        MigrationTxState::AwaitingSignature => 0,
        MigrationTxState::Signed => 1,
        MigrationTxState::Proved => 2,
        MigrationTxState::Broadcast { .. } => 3,
        MigrationTxState::Mined { .. } => 4,
    }
}

pub struct MigScenario {
    pub prop: &'static str,
}

struct Built {
    state: MigrationState,
    commit_height: u32,
    activation: u32,
    interval: u32,
}

impl MigScenario {
    fn owns17(&self) -> bool {
        self.prop == "C17"
    }
    fn v(&self, ctx: &mut RunCtx, family17: bool, v: Violation) -> SimResult {
        if family17 == self.owns17() {
            ctx.report(v)
        } else {
            ctx.event(format!("cross-property observation [{}] {}", v.oracle, v.detail));
            *ctx.probes.entry(format!("cross_property_observation:{}", v.oracle)).or_default() += 1;
            Ok(())
        }
    }

    /// Build a committed migration through the real scheduling functions, checking every artefact.
    fn build(&self, ch: &mut Choices, ctx: &mut RunCtx, rng: &mut SimRng) -> Result<Option<Built>, Violation> {
        let interval = *ch.pick("interval", &[144u32, 4, 7, 12, 30, 288]);
        let iv = AnchorBucketInterval::custom(NonZeroU32::new(interval).unwrap());
        let params = if interval == 144 && ch.chance("zip318", 1, 2) { SchedulingParams::ZIP_318 } else { SchedulingParams::new_with_default_distributions(iv) };
        let top = ch.chance("near_u32_max", 1, 12);
        let activation = if top { u32::MAX - 200_000 - ch.below("act.top", 100_000) as u32 } else { 1 + ch.below("activation", 3000) as u32 };
        let commit_height = if top {
            u32::MAX - ch.below("commit.top", 150_000) as u32
        } else if ch.chance("commit.near_expiry_rollover", 1, 4) {
            // just below a roll-over of the canonical expiry (34 560 blocks), so that the schedule straddles it and
            // early and late transactions of one migration expire at different heights
            ctx.probe("schedule_straddles_expiry_rollover");
            34_560 * (1 + ch.below("commit.epoch", 3) as u32) - ch.below("commit.below", 400) as u32
        } else {
            activation + 6 * interval + ch.below("commit.off", 2000) as u32
        };
        let n_prep = ch.below("n_prep", 4) as usize;
        let n_tr = 1 + ch.below("n_transfer", 6) as usize;
        ctx.config = json!({"interval": interval, "activation": activation, "commit_height": commit_height, "preps": n_prep, "transfers": n_tr, "rng": format!("{:?}", rng.kind), "near_u32_max": top});
        ctx.shape(&format!("i{interval}p{n_prep}t{n_tr}{:?}", rng.kind));
        // ---- preparation broadcast heights
        let c = BlockHeight::from_u32(commit_height);
        let prep_h = catch(|| scheduling::schedule_prep_broadcast_heights(&params, c, n_prep, rng)).map_err(|m| Violation::new("no_panic", format!("schedule_prep_broadcast_heights panicked: {m}")))?;
        self.check_heights(ctx, "schedule_prep_broadcast_heights", commit_height, &prep_h.iter().map(|h| u32::from(*h)).collect::<Vec<_>>(), params.preparation_delay().cap().get(), n_prep)?;
        let start = prep_h.last().copied().unwrap_or(c);
        let sched = catch(|| scheduling::schedule(&params, start, n_tr, rng)).map_err(|m| Violation::new("no_panic", format!("schedule panicked: {m}")))?;
        self.check_heights(ctx, "schedule", u32::from(start), &sched.iter().map(|s| u32::from(s.broadcast_height())).collect::<Vec<_>>(), params.transfer_delay().cap().get(), n_tr)?;
        for s in &sched {
            ctx.oracle("expiry_is_canonical");
            let (b, e) = (u32::from(s.broadcast_height()), u32::from(s.expiry_height()));
            if e != ref_expiry(b) {
                self.v(ctx, true, Violation::new("expiry_is_canonical", format!("schedule(): broadcast height {b} got expiry {e}, canonical rolling expiry is {}", ref_expiry(b))))?;
            }
        }
        for h in [0u32, 1, 34_559, 34_560, 34_561, u32::MAX - 69_121, u32::MAX - 69_120, u32::MAX - 1, u32::MAX, commit_height] {
            let e = catch(|| u32::from(scheduling::expiry_height(BlockHeight::from_u32(h)))).map_err(|m| Violation::new("no_panic", format!("expiry_height({h}) panicked: {m}")))?;
            ctx.oracle("expiry_is_canonical");
            if e != ref_expiry(h) {
                self.v(ctx, true, Violation::new("expiry_is_canonical", format!("expiry_height({h}) = {e}, expected {}", ref_expiry(h))))?;
            }
        }
        // ---- anchors
        let mut anchors = vec![];
        for s in &sched {
            let tip = commit_height;
            let funding = activation.max(commit_height.saturating_sub(ch.below("funding.age", (8 * interval) as u64) as u32));
            let a = catch(|| scheduling::draw_anchor_boundary(iv, BlockHeight::from_u32(activation), BlockHeight::from_u32(funding), BlockHeight::from_u32(tip), rng)).map_err(|m| Violation::new("no_panic", format!("draw_anchor_boundary panicked: {m}")))?;
            self.check_anchor(ctx, "draw_anchor_boundary", interval, activation, funding, tip, a.map(u32::from))?;
            let _ = s;
            anchors.push(a);
        }
        // redraw at a later height
        if let Some(Some(prior)) = anchors.first().copied() {
            let bh = u32::from(sched[0].broadcast_height()).saturating_add(ch.below("redraw.later", (6 * interval) as u64) as u32);
            let r = catch(|| scheduling::redraw_anchor_boundary(iv, prior, BlockHeight::from_u32(bh), rng)).map_err(|m| Violation::new("no_panic", format!("redraw_anchor_boundary panicked: {m}")))?;
            ctx.oracle("redrawn_anchor_is_canonical");
            let most_recent = bh - bh % interval;
            let lo = u32::from(prior).div_ceil(interval) * interval;
            let exists = (1..=4u32).any(|age| most_recent.checked_sub(age.saturating_mul(interval)).map(|c| c >= lo).unwrap_or(false));
            match r.map(u32::from) {
                None => {
                    if exists {
                        self.v(ctx, true, Violation::new("anchor_absent_only_when_none_exists", format!("redraw_anchor_boundary(prior {}, broadcast {bh}) returned None although a boundary in [{lo}, {}] within the age cap exists", u32::from(prior), most_recent.saturating_sub(interval))))?;
                    }
                }
                Some(b) => {
                    let ok = b % interval == 0 && b >= u32::from(prior) && b < most_recent && (most_recent - b) / interval <= 4;
                    if !ok {
                        self.v(ctx, true, Violation::new("redrawn_anchor_is_canonical", format!("redraw_anchor_boundary(prior {}, broadcast {bh}) = {b} (interval {interval}, most recent boundary {most_recent})", u32::from(prior))))?;
                    }
                }
            }
        }
        // ---- auxiliary: evidence monotonicity
        for _ in 0..4 {
            match evidence_walk(ch) {
                Ok(n) => ctx.oracle_n("classification_monotone_in_evidence", n),
                Err(d) => self.v(ctx, true, Violation::new("classification_monotone_in_evidence", d))?,
            }
        }
        // ---- assemble the state
        let mut txs = vec![];
        let mut r = ch.fork_rng("state.bytes");
        let mut id = 0u32;
        let mut prep_ids = vec![];
        // preparation layers: a later preparation may consume the output of an earlier one (layer + 1), so that
        // transfers can sit two or three dependency levels below a root
        let layered = n_prep >= 2 && ch.chance("prep.layered", 1, 2);
        let mut prep_layer: Vec<u8> = vec![];
        for (i, h) in prep_h.iter().enumerate() {
            let txid = TxId::from_bytes(r.bytes32());
            let (layer, pdeps) = if layered && i > 0 && ch.chance("prep.child", 2, 3) {
                let parent = ch.idx("prep.parent", i);
                (prep_layer[parent] + 1, vec![prep_ids[parent]])
            } else {
                (0u8, vec![])
            };
            if layer >= 1 {
                ctx.probe("preparation_layers_ge_2");
            }
            prep_layer.push(layer);
            txs.push(MigrationTransaction::from_parts(
                MigrationTransferId::new(id),
                MigrationTxKind::Preparation { layer: layer as _, index: i },
                valid_pczt().clone(),
                pdeps,
                *h,
                scheduling::expiry_height(*h),
                None,
                txid,
                MigrationTxState::Signed,
                None,
                None,
                vec![r.bytes32()],
                None,
            ));
            prep_ids.push(MigrationTransferId::new(id));
            id += 1;
        }
        for (i, s) in sched.iter().enumerate() {
            let deps = if prep_ids.is_empty() { vec![] } else { vec![prep_ids[if layered { prep_ids.len() - 1 - (i % prep_ids.len()) } else { i % prep_ids.len() }]] };
            // an anchor that could not be drawn at commit is drawn later by the engine; the simulation needs one
            let anchor = anchors[i].or_else(|| {
                let mr = commit_height - commit_height % interval;
                mr.checked_sub(interval).filter(|b| *b > activation).map(BlockHeight::from_u32)
            });
            txs.push(MigrationTransaction::from_parts(
                MigrationTransferId::new(id),
                MigrationTxKind::Transfer { crossing: i },
                valid_pczt().clone(),
                deps,
                s.broadcast_height(),
                s.expiry_height(),
                anchor,
                TxId::from_bytes(r.bytes32()),
                MigrationTxState::Signed,
                None,
                None,
                vec![r.bytes32()],
                None,
            ));
            id += 1;
        }
        let values: Vec<Zatoshis> = (0..n_tr).map(|_| Zatoshis::const_from_u64(1_000_000 * (1 + r.below(1000)))).collect();
        let den = DenominationPlan::from_stored_parts(values, Zatoshis::const_from_u64(15_000), None, Zatoshis::ZERO, Zatoshis::const_from_u64(0), Zatoshis::const_from_u64(0));
        let Some(den) = den.ok() else { return Ok(None) };
        let thr = ReplanThreshold::new(ch.below("threshold", 101) as u8).unwrap();
        let state = MigrationState::from_parts(MigrationStatus::Committed, den, PreparationPlan::from_parts(vec![], vec![]), txs, iv, thr);
        Ok(Some(Built { state, commit_height, activation, interval }))
    }

    fn check_heights(&self, ctx: &mut RunCtx, what: &str, start: u32, hs: &[u32], cap: u32, n: usize) -> SimResult {
        ctx.oracle("broadcast_heights_canonical");
        if hs.len() != n {
            return self.v(ctx, true, Violation::new("broadcast_heights_canonical", format!("{what}: asked for {n} heights, got {}", hs.len())));
        }
        let mut prev = start;
        for h in hs {
            if *h < prev {
                return self.v(ctx, true, Violation::new("broadcast_heights_never_decrease", format!("{what}: {hs:?} from start {start}")));
            }
            // saturation at the top of the range is the documented behaviour; otherwise the gap is one drawn delay
            if *h != u32::MAX && *h - prev > cap {
                return self.v(ctx, true, Violation::new("delay_within_cap", format!("{what}: gap {} exceeds the delay cap {cap} ({hs:?} from {start})", *h - prev)));
            }
            prev = *h;
        }
        Ok(())
    }

    fn check_anchor(&self, ctx: &mut RunCtx, what: &str, interval: u32, activation: u32, funding: u32, tip: u32, got: Option<u32>) -> SimResult {
        ctx.oracle("drawn_anchor_is_canonical");
        let most_recent = tip - tip % interval;
        // brute force over the candidate range
        let cands: Vec<u32> = (1..=4u32).filter_map(|age| most_recent.checked_sub(age.checked_mul(interval)?)).filter(|b| *b > activation && *b >= funding && *b % interval == 0).collect();
        match got {
            None => {
                if !cands.is_empty() {
                    return self.v(ctx, true, Violation::new("anchor_absent_only_when_none_exists", format!("{what}(interval {interval}, activation {activation}, funding {funding}, tip {tip}) = None although boundaries {cands:?} qualify")));
                }
                ctx.probe("anchor_none_exists");
            }
            Some(b) => {
                if !cands.contains(&b) {
                    return self.v(ctx, true, Violation::new("drawn_anchor_is_canonical", format!("{what}(interval {interval}, activation {activation}, funding {funding}, tip {tip}) = {b}; qualifying boundaries (grid, > activation, >= funding note, < most recent boundary {most_recent}, age <= 4): {cands:?}")));
                }
            }
        }
        Ok(())
    }

    /// Wake-up schedule invariants + minimality on small instances (auxiliary for C17).
    fn check_wakeups(&self, ctx: &mut RunCtx, state: &MigrationState, tip: u32, rng: &mut SimRng) -> SimResult {
        let params = WakeupParams::DEFAULT;
        let r = catch(|| state.sync_wakeup_schedule(BlockHeight::from_u32(tip), &params, rng)).map_err(|m| Violation::new("no_panic", format!("sync_wakeup_schedule panicked: {m}")));
        let r = match r {
            Err(v) => return self.v(ctx, true, v),
            Ok(r) => r,
        };
        let Ok(w) = r else {
            ctx.shape("wakeup_infeasible");
            return Ok(());
        };
        ctx.oracle("wakeup_schedule_canonical");
        let margin = params.settle_margin().max(1);
        // windows of the transfers the schedule must cover
        let mut windows: BTreeMap<MigrationTransferId, (u32, u32)> = BTreeMap::new();
        for t in state.transactions() {
            if matches!(t.kind(), MigrationTxKind::Transfer { .. }) && matches!(t.state(), MigrationTxState::Signed | MigrationTxState::AwaitingSignature) && t.unsatisfiable().is_none() && u32::from(t.expiry_height()) > tip {
                if let Some(a) = t.anchor_boundary() {
                    let (a, b) = (u32::from(a), u32::from(t.scheduled_height()));
                    if b > a.saturating_add(1) {
                        let deadline = b - 1;
                        let ready = a.saturating_add(margin).min(deadline);
                        windows.insert(t.id(), (ready, deadline));
                    }
                }
            }
        }
        let hs: Vec<u32> = w.iter().map(|x| u32::from(x.height())).collect();
        for p in hs.windows(2) {
            if p[0] >= p[1] {
                return self.v(ctx, true, Violation::new("wakeups_strictly_increasing", format!("{hs:?}")));
            }
        }
        if hs.iter().any(|h| *h < tip) {
            return self.v(ctx, true, Violation::new("wakeups_never_in_the_past", format!("tip {tip}, wake-ups {hs:?}")));
        }
        let mut seen = BTreeSet::new();
        for x in &w {
            for id in x.covers() {
                if !seen.insert(*id) {
                    return self.v(ctx, true, Violation::new("transfer_covered_exactly_once", format!("{id:?} covered twice")));
                }
                if let Some((ready, deadline)) = windows.get(id) {
                    let h = u32::from(x.height());
                    let overdue = *deadline < tip;
                    if !overdue && (h < *ready || h > *deadline) {
                        return self.v(ctx, true, Violation::new("wakeup_inside_proving_window", format!("{id:?}: wake-up at {h}, window [{ready}, {deadline}]")));
                    }
                }
            }
        }
        for id in windows.keys() {
            if !seen.contains(id) {
                return self.v(ctx, true, Violation::new("transfer_covered_exactly_once", format!("{id:?} is not covered by any wake-up")));
            }
        }
        // minimality: brute-force minimum piercing set over the (non-overdue) windows
        let live: Vec<(u32, u32)> = windows.values().copied().filter(|(_, d)| *d >= tip).map(|(r, d)| (r.max(tip), d)).collect();
        if !live.is_empty() && live.len() <= 10 {
            let mut sorted = live.clone();
            sorted.sort_by_key(|x| x.1);
            let mut count = 0;
            let mut last: Option<u32> = None;
            for (r, d) in sorted {
                if last.map(|p| p < r).unwrap_or(true) {
                    count += 1;
                    last = Some(d);
                }
            }
            let overdue_group = windows.values().any(|(_, d)| *d < tip) as usize;
            ctx.oracle("wakeups_minimal");
            if w.len() > count + overdue_group {
                return self.v(ctx, true, Violation::new("wakeups_minimal", format!("{} wake-ups at {hs:?} covering {:?} (tip {tip}) for proving windows {:?} (+{overdue_group} overdue group); the minimum piercing set has {count}", w.len(), w.iter().map(|x| x.covers().to_vec()).collect::<Vec<_>>(), windows)));
            }
        }
        Ok(())
    }
}

/// The consumer persists a state change; a failing store is retried (the change must become durable before going on).
fn persist(store: &mut SimStore<'_>, state: &MigrationState, ctx: &mut RunCtx) {
    for _ in 0..4 {
        if store.replace_migration(state).is_ok() {
            return;
        }
        ctx.fault("store_error@call");
    }
}

struct Zip318Defaults;
impl zcash_protocol::zip318::PoolMigrationConstants for Zip318Defaults {}

/// Evidence arriving over time: reveal the clauses of one fully known transaction in a drawn order;
/// a decision, once reached, never changes (auxiliary clause of C17).
fn evidence_walk(ch: &mut Choices) -> Result<u64, String> {
    use zcash_protocol::zip318::{classify, Zip318Classification, Zip318Evidence};
    let vals = (
        *ch.pick("ev.src", &[0usize, 1, 2, 3, 5]),
        *ch.pick("ev.dst", &[0usize, 1, 2, 3]),
        ch.chance("ev.other", 1, 4),
        ch.chance("ev.self", 3, 4),
        *ch.pick("ev.value", &[None, Some(1_000_000u64), Some(100_000_000), Some(123_456), Some(0)]),
        ch.chance("ev.expiry", 3, 4),
        ch.chance("ev.grid", 3, 4),
        ch.chance("ev.fee", 3, 4),
    );
    // The two confirmatory clauses are a fixed capability of the evidence source (documented obligation on
    // Zip318Evidence): they are answered from the start or never; only the six primary clauses arrive over time.
    let mut order: Vec<usize> = (0..6).collect();
    ch.shuffle("ev.order", &mut order);
    let mut e = Zip318Evidence::default();
    if ch.chance("ev.cap.anchor", 1, 2) {
        e = e.with_anchor_on_grid(Some(vals.6));
    }
    if ch.chance("ev.cap.fee", 1, 2) {
        e = e.with_fee_is_canonical(Some(vals.7));
    }
    let mut decided: Option<Zip318Classification> = match classify(&e, &Zip318Defaults) {
        Zip318Classification::Unknown => None,
        c => Some(c),
    };
    let mut visited = 0;
    for (n, f) in order.iter().enumerate() {
        e = match f {
            0 => e.with_source_actions(Some(vals.0)),
            1 => e.with_destination_actions(Some(vals.1)),
            2 => e.with_other_bundles_present(Some(vals.2)),
            3 => e.with_source_is_send_to_self(Some(vals.3)),
            4 => e.with_sole_destination_value(vals.4.and_then(|v| Zatoshis::from_u64(v).ok())),
            5 => e.with_expiry_is_canonical(Some(vals.5)),
            6 => e.with_anchor_on_grid(Some(vals.6)),
            _ => e.with_fee_is_canonical(Some(vals.7)),
        };
        let c = classify(&e, &Zip318Defaults);
        visited += 1;
        if let Some(d) = decided {
            if c != d {
                return Err(format!("after revealing {} clauses in order {:?} of evidence {:?} the classification changed from {:?} to {:?}", n + 1, order, vals, d, c));
            }
        } else if c != Zip318Classification::Unknown {
            decided = Some(c);
        }
    }
    Ok(visited)
}

fn state_digest(s: &MigrationState) -> Vec<(MigrationTransferId, MigrationTxState, Option<u32>, Option<u32>)> {
    s.transactions().iter().map(|t| (t.id(), t.state(), t.unsatisfiable_at().map(u32::from), t.broadcast_failure_at().map(u32::from))).collect()
}

impl Scenario for MigScenario {
    fn property(&self) -> &'static str {
        self.prop
    }
    fn name(&self) -> &'static str {
        if self.prop == "C17" {
            "clock"
        } else {
            "lifecycle"
        }
    }
    fn prepare(&self) {
        let _ = template_db();
    }
    fn run(&self, ch: &mut Choices, ctx: &mut RunCtx) -> SimResult {
        let kind = *ch.pick("rng.kind", &[RngKind::Uniform, RngKind::Uniform, RngKind::ZerosHeavy, RngKind::OnesHeavy, RngKind::LowEntropy, RngKind::Counter]);
        let mut rng = SimRng::new(kind, ch.u64("rng.seed"));
        if kind != RngKind::Uniform {
            ctx.fault(&format!("rng_stream:{kind:?}"));
        }
        // ---- the migration
        let use_arb = if self.prop == "C18" { ch.chance("arb_state", 1, 3) } else { ch.chance("arb_state", 1, 6) };
        let (mut state, commit_height, _activation, interval) = if use_arb {
            let mut seed = [0u8; 32];
            seed.copy_from_slice(&ch.bytes("arb.seed", 32));
            let mut runner = TestRunner::new_with_rng(Config::default(), TestRng::from_seed(RngAlgorithm::ChaCha, &seed));
            let st = arb_migration_state().new_tree(&mut runner).map_err(|e| Violation::new("generator", e.to_string()))?.current();
            ctx.config = json!({"state": "arb_migration_state", "transactions": st.transactions().len(), "status": format!("{:?}", st.status())});
            ctx.shape("arb");
            let h = st.transactions().iter().map(|t| u32::from(t.scheduled_height())).min().unwrap_or(1000);
            (st, h.saturating_sub(10).max(1), 1u32, 144u32)
        } else {
            let built = match catch(|| self.build(ch, ctx, &mut rng)) {
                Ok(b) => b?,
                Err(m) => return self.v(ctx, true, Violation::new("rejection_sampling_terminates", m)),
            };
            let Some(b) = built else { return Ok(()) };
            (b.state, b.commit_height, b.activation, b.interval)
        };
        let _ = interval;
        // ---- the world
        let mut world = World { tip: commit_height, scanned: commit_height, skew: 0, mined: BTreeMap::new(), mempool: BTreeMap::new(), foreign_spent: BTreeMap::new(), funded_by: BTreeMap::new(), nfs_of: BTreeMap::new() };
        let by_id: BTreeMap<MigrationTransferId, [u8; 32]> = state.transactions().iter().map(|t| (t.id(), *t.txid().as_ref())).collect();
        for t in state.transactions() {
            let txid: [u8; 32] = *t.txid().as_ref();
            world.funded_by.insert(txid, t.depends_on().iter().filter_map(|d| by_id.get(d).copied()).collect());
            world.nfs_of.insert(txid, t.spend_nullifiers().clone());
            // arbitrary states may already be mined / broadcast
            match t.state() {
                MigrationTxState::Mined { height, .. } => {
                    world.mined.insert(txid, u32::from(height).min(commit_height));
                }
                MigrationTxState::Broadcast { .. } => {
                    world.mempool.insert(txid, Pending { include_at: Some(commit_height + 2), expiry: u32::from(t.expiry_height()) });
                }
                _ => {}
            }
        }
        // ---- the stores
        let use_sql = ch.chance("sqlite", if self.prop == "C18" { 2 } else { 0 }, 5);
        let root = scratch_root();
        std::fs::create_dir_all(&root).unwrap();
        let dir = tempfile::Builder::new().prefix("mig-").tempdir_in(&root).unwrap();
        let mut conn_holder: Option<(Connection, zcash_client_sqlite::AccountUuid)> = None;
        if use_sql {
            let path = dir.path().join("wallet.db");
            std::fs::write(&path, template_db()).unwrap();
            let mut conn = open_conn(&path, false);
            let acct = {
                use zcash_client_backend::data_api::{AccountBirthday, WalletWrite};
                let mut wrng = rand_chacha::ChaChaRng::from_seed([7u8; 32]);
                let mut d = zcash_client_sqlite::WalletDb::from_connection(&mut conn, full_net(Some(1)), SimClock(std::sync::Arc::new(1_700_000_000.into())), &mut wrng);
                let b = AccountBirthday::from_parts(zcash_client_backend::data_api::chain::ChainState::empty(BlockHeight::from_u32(0), zcash_primitives::block::BlockHash([0; 32])), None);
                d.create_account("m", &secrecy::SecretVec::new(crate::simchain::sim_seed()), &b, None).map_err(|e| Violation::new("create_account_succeeds", e.to_string()))?.0
            };
            conn_holder = Some((conn, acct));
            ctx.shape("sqlite");
        }
        use rand_core::SeedableRng;
        let mut store = SimStore { mem: None, world: &world as *const World, sql: conn_holder.as_mut().map(|(c, a)| (c, *a)), fail_next: 0, calls: 0, writes: 0, roundtrip_failure: None, sql_error: None };
        // history: the account may already have run a migration that ended (its terminal record is retained beside
        // the pending one and nothing may rewrite it)
        let mut history: Vec<(zcash_client_sqlite::pool_migration::MigrationUuid, MigrationStatus)> = vec![];
        if !use_arb && store.sql.is_some() && ch.chance("sqlite.history", 1, 2) {
            let mut prior = state.clone();
            if ch.chance("history.cancelled", 1, 3) {
                prior.mark_cancelled();
            } else {
                prior.mark_superseded();
            }
            let _ = store.save(&prior);
            let _ = store.sql_error.take();
            let _ = store.roundtrip_failure.take();
            store.mem = None;
            if let Some((conn, acct)) = store.sql.as_mut() {
                if let Ok(pm) = PoolMigrations::for_account(full_net(Some(1)), SimClock(std::sync::Arc::new(1_700_000_000.into())), &mut **conn, *acct) {
                    if let Ok(l) = pm.list_migrations() {
                        history = l.iter().map(|m| (m.id(), m.status())).collect();
                    }
                }
            }
            if !history.is_empty() {
                ctx.probe("sqlite_history_row_present");
            }
        }
        // arbitrary states are not validly committed migrations (the SQLite store may legitimately refuse some);
        // the initial save of an engine-built state must succeed and round-trip
        let _ = store.save(&state);
        if let Some(e) = store.sql_error.take() {
            if !use_arb {
                return self.v(ctx, false, Violation::new("sqlite_store_accepts_committed_migration", e));
            }
            store.sql = None;
            ctx.shape("sqlite_refused_arbitrary_state");
        }
        if let Some(d) = store.roundtrip_failure.take() {
            return self.v(ctx, false, Violation::new("saved_migration_loads_back_equal", format!("initial save: {d}")));
        }
        let config = AdvanceConfig::new(ReorgSettleDepth::new(10));
        let mut was_terminal: Option<MigrationStatus> = state.is_terminal().then(|| state.status());
        let n_events = 10 + ch.below("n_events", 90);
        let fault_free = ch.chance("fault_free", 1, 4);
        let mut surfaced_end = false;

        // one consumer drive call + performing the step
        macro_rules! drive {
            ($faults:expr) => {{
                let w: &World = unsafe { &*store.world };
                let scanned_t = w.scanned.saturating_add(1);
                let est_t = ((w.tip as i64 + w.skew as i64).clamp(1, u32::MAX as i64 - 1) as u32).saturating_add(1);
                let targets = DuenessTargets::new(BlockHeight::from_u32(scanned_t), BlockHeight::from_u32(est_t));
                let before = state_digest(&state);
                let before_anchors: Vec<Option<u32>> = state.transactions().iter().map(|t| t.anchor_boundary().map(u32::from)).collect();
                let before_sched: Vec<u32> = state.transactions().iter().map(|t| u32::from(t.scheduled_height())).collect();
                let before_status = state.status();
                let r = catch(|| advance_migration(&mut store, &mut state, targets, &config, &mut rng));
                let r = match r {
                    Ok(r) => r,
                    Err(m) => {
                        if m.contains("rng draw budget") {
                            return self.v(ctx, true, Violation::new("rejection_sampling_terminates", m));
                        }
                        return self.v(ctx, false, Violation::keyed("no_panic", format!("panic:{}", crate::runner::panic_site(&m)), format!("advance_migration panicked: {m}")));
                    }
                };
                if let Some(d) = store.roundtrip_failure.take() {
                    return self.v(ctx, false, Violation::new("saved_migration_loads_back_equal", d));
                }
                if let Some(e) = store.sql_error.take() {
                    return self.v(ctx, false, Violation::new("sqlite_store_accepts_engine_state", e));
                }
                match r {
                    Err(e) => {
                        ctx.fault("store_error@call");
                        ctx.event(format!("advance_migration failed ({}); consumer re-reads the state", e.0));
                        match store.get_migration() {
                            Ok(Some(s)) => state = s,
                            _ => {
                                surfaced_end = true;
                            }
                        }
                        None
                    }
                    Ok(adv) => {
                        ctx.oracle("advance_step_invariants");
                        let step = adv.step().clone();
                        ctx.shape(&format!("{:?}", step.kind()));
                        // lifecycle monotone within a drive call, terminal absorbing
                        for ((id, b, _, _), t) in before.iter().zip(state.transactions()) {
                            if rank(&t.state()) < rank(b) {
                                return self.v(ctx, false, Violation::new("lifecycle_moves_forward", format!("{id:?}: {b:?} -> {:?} inside advance_migration", t.state())));
                            }
                        }
                        // a transfer that had a proving anchor keeps one: re-scheduling may re-draw the boundary, and keeps the
                        // prior one when no fresh boundary can be drawn
                        if before_sched.iter().zip(state.transactions()).any(|(b, t)| *b != u32::from(t.scheduled_height())) {
                            ctx.probe("overdue_shift_applied");
                            for ((bs, ba), t) in before_sched.iter().zip(before_anchors.iter()).zip(state.transactions()) {
                                if *bs != u32::from(t.scheduled_height()) && ba.is_some() && *ba == t.anchor_boundary().map(u32::from) && matches!(t.state(), MigrationTxState::Signed) {
                                    ctx.probe("overdue_shift_kept_the_prior_anchor");
                                }
                            }
                            if before_anchors.iter().zip(state.transactions()).any(|(b, t)| b.is_some() && b != &t.anchor_boundary().map(u32::from)) {
                                ctx.probe("overdue_shift_redrew_an_anchor");
                            }
                        }
                        ctx.oracle("anchor_never_lost");
                        for (b, t) in before_anchors.iter().zip(state.transactions()) {
                            if b.is_some() && t.anchor_boundary().is_none() && !matches!(t.state(), MigrationTxState::Mined { .. }) {
                                return self.v(ctx, true, Violation::new("anchor_never_lost", format!("advance_migration left {:?} without an anchor boundary (it had {:?}): {}", t.id(), b, summarize_tx(t))));
                            }
                        }
                        if before_status.is_terminal() && state.status() != before_status {
                            return self.v(ctx, false, Violation::new("terminal_status_absorbing", format!("{before_status:?} -> {:?} inside advance_migration", state.status())));
                        }
                        // blocks mined move the lifecycle forward: a submitted transaction (recorded or not) that the
                        // wallet's scan has seen mined is Mined after a successful drive, whatever reports it carries
                        if !state.is_terminal() {
                            ctx.oracle("scanned_mined_transaction_is_promoted");
                            for t in state.transactions() {
                                if let Some(h) = w.mined.get(t.txid().as_ref()).filter(|h| **h <= w.scanned) {
                                    if matches!(t.state(), MigrationTxState::Proved | MigrationTxState::Broadcast { .. }) {
                                        return self.v(ctx, false, Violation::new("scanned_mined_transaction_is_promoted", format!("after a successful advance_migration at scanned height {} the transaction mined at {h} is still {:?}: {}", w.scanned, t.state(), summarize_tx(t))));
                                    }
                                }
                            }
                        }
                        if state.is_terminal() && !matches!(step, AdvanceStep::Complete) {
                            return self.v(ctx, false, Violation::new("terminal_migration_step_is_complete", format!("status {:?} but step {:?}", state.status(), step.kind())));
                        }
                        if let AdvanceStep::Broadcast { id } = &step {
                            let Some(t) = state.transactions().iter().find(|t| t.id() == *id) else {
                                return self.v(ctx, false, Violation::new("broadcast_names_known_transaction", format!("{id:?}")));
                            };
                            let deps_mined = t.depends_on().iter().all(|d| state.transactions().iter().any(|x| x.id() == *d && matches!(x.state(), MigrationTxState::Mined { .. })));
                            let exp = u32::from(t.expiry_height());
                            let mut why = vec![];
                            if !matches!(t.state(), MigrationTxState::Proved) {
                                why.push(format!("state is {:?}, not Proved", t.state()));
                            }
                            if !deps_mined {
                                why.push("a dependency is not mined".to_string());
                            }
                            if u32::from(t.scheduled_height()) > u32::from(targets.effective()) {
                                why.push(format!("scheduled {} > effective target {}", u32::from(t.scheduled_height()), u32::from(targets.effective())));
                            }
                            if exp < scanned_t {
                                why.push(format!("expired: expiry {exp} < scanned target {scanned_t}"));
                            }
                            if exp >= scanned_t && exp < u32::from(targets.effective()) {
                                why.push(format!("expiry {exp} probably passed at the effective target {}", u32::from(targets.effective())));
                            }
                            if t.broadcast_failure_at().is_some() {
                                why.push("carries an open broadcast-failure report".to_string());
                            }
                            if t.unsatisfiable().is_some() {
                                why.push("is marked unsatisfiable".to_string());
                            }
                            if !why.is_empty() {
                                return self.v(ctx, false, Violation::new("broadcast_only_when_due_proved_and_funded", format!("Broadcast {{ {id:?} }} offered although {}", why.join("; "))));
                            }
                            ctx.probe("broadcast_offered");
                        }
                        if let AdvanceStep::Prove { transactions } = &step {
                            let mut ids = BTreeSet::new();
                            for p in transactions {
                                if !ids.insert(p.id()) {
                                    return self.v(ctx, false, Violation::new("prove_batch_ids_distinct", format!("{:?}", p.id())));
                                }
                                if let Some(t) = state.transactions().iter().find(|t| t.id() == p.id()) {
                                    if t.unsatisfiable().is_some() {
                                        return self.v(ctx, false, Violation::new("dead_transaction_never_named", format!("Prove names {:?} which is marked unsatisfiable", p.id())));
                                    }
                                }
                            }
                        }
                        // no silent stranding
                        if !state.is_terminal() {
                            let unmined: Vec<&MigrationTransaction> = state.transactions().iter().filter(|t| !matches!(t.state(), MigrationTxState::Mined { .. })).collect();
                            if !unmined.is_empty() && unmined.iter().all(|t| t.unsatisfiable().is_some()) && matches!(step, AdvanceStep::Waiting | AdvanceStep::Complete) {
                                return self.v(ctx, false, Violation::new("no_silent_stranding", format!("every unmined transaction is dead, status {:?}, yet the step is {:?}", state.status(), step.kind())));
                            }
                        }
                        Some(step)
                    }
                }
            }};
        }

        // The consumer's side of a Prove step: the engine's real prove functions over the simulated prover. Engine-built
        // states carry parseable artifacts; arbitrary generator states do not, and keep the plain "store a proof" path.
        let prove_net = full_net(Some(_activation.max(1)));
        let iv_committed = state.anchor_bucket_interval();
        macro_rules! prove_one {
            ($t:expr, $inject:expr) => {{
                let t: &MigrationTransaction = $t;
                let id = t.id();
                if use_arb {
                    let proven = ProvedTransaction::from_parts(id, t.pczt().clone());
                    store.store_proved_transaction(&mut state, proven).is_ok()
                } else {
                    let w: &World = unsafe { &*store.world };
                    let dep_mined: Vec<Option<u32>> = t
                        .depends_on()
                        .iter()
                        .map(|d| state.transactions().iter().find(|x| x.id() == *d).and_then(|x| match x.state() {
                            MigrationTxState::Mined { height, .. } => Some(u32::from(height)),
                            _ => None,
                        }))
                        .collect();
                    let funding = if dep_mined.is_empty() { None } else if dep_mined.iter().all(|x| x.is_some()) { Some(dep_mined.iter().flatten().copied().max()) } else { Some(None) };
                    let spent_nullifier = t.spend_nullifiers().iter().copied().find(|nf| w.foreign_spent.get(nf).map(|h| *h <= w.scanned).unwrap_or(false));
                    let mut prover = SimProver { interval: iv_committed, activation: _activation, scanned: w.scanned, nullifiers: t.spend_nullifiers().clone(), funding, spent_nullifier, inject_other_error: $inject, complaint: None, anchors_seen: 0 };
                    let scanned_tip = BlockHeight::from_u32(w.scanned);
                    let is_transfer = matches!(t.kind(), MigrationTxKind::Transfer { .. });
                    let r = catch(|| {
                        if is_transfer {
                            zcash_pool_migration::engine::prove_transfer(&prove_net, &mut prover, &mut state, id, scanned_tip, &mut rng).map_err(|e| format!("{e}"))
                        } else {
                            zcash_pool_migration::engine::prove_preparation(&mut prover, &mut state, id, scanned_tip).map_err(|e| format!("{e}"))
                        }
                    });
                    let anchor_after = state.transactions().iter().find(|x| x.id() == id).and_then(|x| x.anchor_boundary());
                    if anchor_after != t.anchor_boundary() {
                        ctx.probe("anchor_redrawn_at_proving");
                        if !matches!(r, Ok(Ok(zcash_pool_migration::engine::ProveOutcome::Proved(_)))) {
                            ctx.probe("anchor_redrawn_at_proving_but_not_proved");
                        }
                    }
                    ctx.oracle_n("prover_anchor_is_witnessable", prover.anchors_seen);
                    if let Some(c) = prover.complaint.take() {
                        return self.v(ctx, true, Violation::new("prover_anchor_is_witnessable", format!("{id:?}: {c}; {}", summarize_tx(t))));
                    }
                    match r {
                        Err(m) => {
                            if m.contains("rng draw budget") {
                                return self.v(ctx, true, Violation::new("rejection_sampling_terminates", m));
                            }
                            return self.v(ctx, false, Violation::keyed("no_panic", format!("panic:{}", crate::runner::panic_site(&m)), format!("prove_transfer / prove_preparation panicked: {m}")));
                        }
                        Ok(Err(e)) => {
                            ctx.event(format!("proving {id:?} failed: {e}"));
                            ctx.shape("prove_err");
                            true
                        }
                        Ok(Ok(zcash_pool_migration::engine::ProveOutcome::Proved(p))) => store.store_proved_transaction(&mut state, p).is_ok(),
                        Ok(Ok(zcash_pool_migration::engine::ProveOutcome::NotYetProvable)) => {
                            ctx.probe("prove_not_yet_provable");
                            // a boundary re-draw may have happened: worth persisting
                            store.replace_migration(&state).is_ok()
                        }
                        Ok(Ok(zcash_pool_migration::engine::ProveOutcome::MarkedUnsatisfiable { .. })) => {
                            ctx.probe("prove_marked_unsatisfiable");
                            store.replace_migration(&state).is_ok()
                        }
                    }
                }
            }};
        }

        for ev in 0..n_events {
            if !ch.more() || surfaced_end {
                break;
            }
            ch.open("ev");
            let k = if fault_free { ch.weighted("event", &[45, 40, 0, 0, 0, 0, 0, 0, 0]) } else { ch.weighted("event", &[34, 30, 7, 6, 6, 6, 6, 5, if store.sql.is_some() && !use_arb { 1 } else { 0 }]) };
            match k {
                // ---- consumer drives
                0 => {
                    ctx.op("drive");
                    let step = drive!(true);
                    if let Some(step) = step {
                        match step {
                            AdvanceStep::Prove { transactions } => {
                                for p in transactions {
                                    let Some(t) = state.transactions().iter().find(|t| t.id() == p.id()).cloned() else { continue };
                                    if !fault_free && ch.chance("prove.skip", 1, 8) {
                                        continue;
                                    }
                                    // the wake-up that proves a transfer must come strictly before its broadcast height
                                    if matches!(t.kind(), MigrationTxKind::Transfer { .. }) && world.scanned >= u32::from(t.scheduled_height()) {
                                        ctx.probe("proved_at_or_after_broadcast_height");
                                    }
                                    let inject = !fault_free && ch.chance("prove.other_error", 1, if self.prop == "C17" { 4 } else { 12 });
                                    if inject {
                                        ctx.fault("prover_error");
                                    }
                                    if !prove_one!(&t, inject) {
                                        ctx.fault("store_error@call");
                                        if let Ok(Some(s)) = store.get_migration() {
                                            state = s;
                                        }
                                        break;
                                    }
                                    if let Some(d) = store.roundtrip_failure.take() {
                                        ch.close();
                                        return self.v(ctx, false, Violation::new("saved_migration_loads_back_equal", d));
                                    }
                                }
                            }
                            AdvanceStep::Broadcast { id } => {
                                let t = state.transactions().iter().find(|t| t.id() == id).cloned().unwrap();
                                let txid: [u8; 32] = *t.txid().as_ref();
                                // what the wallet's own scan has seen mined is promoted, never offered again
                                ctx.oracle("broadcast_not_offered_for_scanned_mined_transaction");
                                if let Some(h) = world.mined.get(&txid).filter(|h| **h <= world.scanned) {
                                    ch.close();
                                    return self.v(ctx, false, Violation::new("broadcast_not_offered_for_scanned_mined_transaction", format!("{id:?} is offered for broadcast although the wallet has scanned it mined at {h} (scanned {}): {}", world.scanned, summarize_tx(&t))));
                                }
                                // a transaction the node already has (its first submission went through, only the record was
                                // lost) may be answered with a rejection: the consumer reports a failure for a transaction that
                                // is in fact on its way into a block
                                let known = world.mempool.contains_key(&txid) || world.mined.contains_key(&txid);
                                let outcome = if known && ch.chance("broadcast.already_known", 1, 2) {
                                    ctx.fault("broadcast_rejected_already_known");
                                    state.report_broadcast_failure(id, BlockHeight::from_u32(world.tip));
                                    persist(&mut store, &state, ctx);
                                    9
                                } else if fault_free {
                                    0
                                } else {
                                    ch.weighted("broadcast", &[70, 12, 10, 8])
                                };
                                match outcome {
                                    9 => {}
                                    0 | 2 | 3 => {
                                        let include = if outcome == 3 { None } else { Some(world.tip + 1 + ch.below("mine.delay", 4) as u32) };
                                        if include.is_none() {
                                            ctx.fault("never_mined");
                                        }
                                        world.mempool.insert(txid, Pending { include_at: include, expiry: u32::from(t.expiry_height()) });
                                        if outcome == 2 {
                                            // crash after the submission, before recording it
                                            ctx.fault("broadcast_lost_record");
                                            if let Ok(Some(s)) = store.get_migration() {
                                                state = s;
                                            }
                                        } else {
                                            state.mark_broadcast(id);
                                            if store.replace_migration(&state).is_err() {
                                                ctx.fault("store_error@call");
                                                if let Ok(Some(s)) = store.get_migration() {
                                                    state = s;
                                                }
                                            }
                                        }
                                    }
                                    _ => {
                                        ctx.fault("broadcast_rejected");
                                        state.report_broadcast_failure(id, BlockHeight::from_u32(world.tip));
                                        persist(&mut store, &state, ctx);
                                    }
                                }
                                if let Some(d) = store.roundtrip_failure.take() {
                                    ch.close();
                                    return self.v(ctx, false, Violation::new("saved_migration_loads_back_equal", d));
                                }
                            }
                            AdvanceStep::Rebuild { id } => {
                                ctx.probe("rebuild_surfaced");
                                let t = state.transactions().iter().find(|t| t.id() == id);
                                let ok = t.map(|t| matches!(t.kind(), MigrationTxKind::Transfer { .. }) && !matches!(t.state(), MigrationTxState::Mined { .. }) && u32::from(t.expiry_height()) < world.scanned.saturating_add(1)).unwrap_or(false);
                                if !ok {
                                    ch.close();
                                    return self.v(ctx, false, Violation::new("rebuild_names_expired_unmined_transfer", format!("{id:?}: {:?}", t.map(summarize_tx))));
                                }
                                state.mark_superseded();
                                persist(&mut store, &state, ctx);
                                surfaced_end = true;
                            }
                            AdvanceStep::Replan => {
                                ctx.probe("replan_surfaced");
                                state.mark_superseded();
                                persist(&mut store, &state, ctx);
                                surfaced_end = true;
                            }
                            AdvanceStep::Reevaluate => {
                                ctx.probe("reevaluate_surfaced");
                                world.scanned = world.tip;
                            }
                            AdvanceStep::Waiting => {}
                            AdvanceStep::Complete => {
                                if !state.is_terminal() && !state.transactions().iter().all(|t| matches!(t.state(), MigrationTxState::Mined { .. })) {
                                    ch.close();
                                    return self.v(ctx, false, Violation::new("complete_means_all_mined_or_terminal", format!("status {:?}", state.status())));
                                }
                                surfaced_end = true;
                            }
                        }
                    }
                }
                // ---- blocks are mined; the wallet scan follows with a lag
                1 => {
                    ctx.op("mine");
                    let n = 1 + ch.below("blocks", 12) as u32;
                    for _ in 0..n {
                        if world.tip == u32::MAX - 2 {
                            break;
                        }
                        world.mine_block(ctx);
                    }
                    let lag = if fault_free { 0 } else { ch.below("scan.lag", 4) as u32 };
                    world.scanned = world.scanned.max(world.tip.saturating_sub(lag));
                    if lag > 0 {
                        ctx.fault("scan_lag");
                    }
                }
                // ---- the wallet sleeps through part of the schedule
                2 => {
                    ctx.op("sleep");
                    let n = 20 + ch.below("sleep.blocks", 400) as u32;
                    for _ in 0..n {
                        if world.tip >= u32::MAX - 2 {
                            break;
                        }
                        world.mine_block(ctx);
                    }
                    if ch.chance("sleep.sync", 2, 3) {
                        world.scanned = world.tip;
                    }
                    ctx.fault("wallet_sleep");
                }
                // ---- reorg: the last d blocks are replaced
                3 => {
                    ctx.op("reorg");
                    let d = 1 + ch.below("depth", 12) as u32;
                    let h = world.tip.saturating_sub(d).max(commit_height);
                    let unmined: Vec<[u8; 32]> = world.mined.iter().filter(|(_, x)| **x > h).map(|(t, _)| *t).collect();
                    for t in &unmined {
                        world.mined.remove(t);
                        // back in the mempool; may re-mine
                        let exp = state.transactions().iter().find(|x| x.txid().as_ref() == t).map(|x| u32::from(x.expiry_height())).unwrap_or(u32::MAX);
                        world.mempool.insert(*t, Pending { include_at: if ch.chance("remine", 3, 4) { Some(h + 1 + ch.below("remine.delay", 5) as u32) } else { None }, expiry: exp });
                    }
                    world.foreign_spent.retain(|_, x| *x <= h);
                    let old_tip = world.tip;
                    world.tip = h;
                    // the wallet truncates (possibly lower than the fork point) and tells the migration
                    let got = h.saturating_sub(ch.below("trunc.lower", 3) as u32).max(commit_height.saturating_sub(1));
                    world.scanned = world.scanned.min(got);
                    let before = state.clone();
                    state.truncate_to_height(BlockHeight::from_u32(got));
                    ctx.oracle("truncate_demotes_exactly_above");
                    for (b, a) in before.transactions().iter().zip(state.transactions()) {
                        let expect_state = match b.state() {
                            MigrationTxState::Mined { txid, height } if u32::from(height) > got => MigrationTxState::Broadcast { txid },
                            s => s,
                        };
                        let expect_unsat = b.unsatisfiable().filter(|(hh, _)| u32::from(*hh) <= got);
                        let expect_fail = b.broadcast_failure_at().filter(|hh| u32::from(*hh) <= got);
                        if a.state() != expect_state || a.unsatisfiable() != expect_unsat || a.broadcast_failure_at() != expect_fail {
                            ch.close();
                            return self.v(ctx, false, Violation::new("truncate_demotes_exactly_above", format!("truncate_to_height({got}): {:?} was {} and became {}", b.id(), summarize_tx(b), summarize_tx(a))));
                        }
                    }
                    if before.status() != state.status() {
                        // (an arbitrary generator state may claim Complete while holding unmined transactions; that input is
                        // already inconsistent and the documented revert applies to it without any demotion)
                        let inconsistent_input = before.transactions().iter().any(|t| !matches!(t.state(), MigrationTxState::Mined { .. }));
                        let legit = before.status() == MigrationStatus::Complete && state.status() == MigrationStatus::InProgress && (inconsistent_input || before.transactions().iter().any(|t| matches!(t.state(), MigrationTxState::Mined { height, .. } if u32::from(height) > got)));
                        if !legit {
                            ch.close();
                            return self.v(ctx, false, Violation::new("terminal_status_absorbing", format!("truncate_to_height({got}) changed the status {:?} -> {:?}", before.status(), state.status())));
                        }
                        ctx.probe("complete_reverted_by_rollback");
                        was_terminal = None;
                    }
                    persist(&mut store, &state, ctx);
                    if let Some(d) = store.roundtrip_failure.take() {
                        ch.close();
                        return self.v(ctx, false, Violation::new("saved_migration_loads_back_equal", d));
                    }
                    for _ in 0..(old_tip - h) {
                        world.mine_block(ctx);
                    }
                    ctx.fault("reorg");
                    if !unmined.is_empty() {
                        ctx.probe("rollback_unmined");
                    }
                }
                // ---- somebody else spends a note the plan relies on
                4 => {
                    ctx.op("foreign_spend");
                    let c: Vec<&MigrationTransaction> = state.transactions().iter().filter(|t| !matches!(t.state(), MigrationTxState::Mined { .. }) && !t.spend_nullifiers().is_empty()).collect();
                    if !c.is_empty() {
                        let t = c[ch.idx("victim", c.len())];
                        let nf = t.spend_nullifiers()[0];
                        let txid: [u8; 32] = *t.txid().as_ref();
                        if !world.mined.contains_key(&txid) {
                            world.foreign_spent.entry(nf).or_insert(world.tip + 1);
                            ctx.fault("foreign_spend");
                        }
                    }
                }
                // ---- the next store call fails
                5 => {
                    ctx.op("store_fault_armed");
                    store.fail_next = 1 + ch.below("fail.in", 3) as u32;
                }
                // ---- clock skew between the scan and the estimate
                6 => {
                    ctx.op("clock_skew");
                    world.skew = ch.below("skew", 41) as i32 - 10;
                    if ch.chance("skew.jump", 1, 10) {
                        world.skew = 1_000_000;
                        ctx.fault("clock_jump");
                    }
                    ctx.fault("clock_skew");
                }
                // ---- the user cancels the migration (store level: works without reading the state)
                8 => {
                    ctx.op("cancel_migration");
                    let mut after: Vec<(zcash_client_sqlite::pool_migration::MigrationUuid, MigrationStatus)> = vec![];
                    let mut err = None;
                    if let Some((conn, acct)) = store.sql.as_mut() {
                        match PoolMigrations::for_account(full_net(Some(1)), SimClock(std::sync::Arc::new(1_700_000_000.into())), &mut **conn, *acct) {
                            Ok(mut pm) => {
                                if let Err(e) = pm.cancel_migration() {
                                    err = Some(format!("{e:?}"));
                                }
                                match pm.list_migrations() {
                                    Ok(l) => after = l.iter().map(|m| (m.id(), m.status())).collect(),
                                    Err(e) => err = Some(format!("{e:?}")),
                                }
                            }
                            Err(e) => err = Some(format!("{e:?}")),
                        }
                    }
                    if let Some(e) = err {
                        ch.close();
                        return self.v(ctx, false, Violation::new("cancel_migration_succeeds", e));
                    }
                    ctx.oracle("cancel_touches_only_the_pending_record");
                    for (id, st) in &history {
                        match after.iter().find(|(i, _)| i == id) {
                            Some((_, now)) if now == st => {}
                            other => {
                                ch.close();
                                return self.v(ctx, false, Violation::new("terminal_status_absorbing", format!("cancel_migration rewrote history: the earlier migration {id:?} was {st:?} and is now {:?}", other.map(|x| x.1))));
                            }
                        }
                    }
                    let pending_left = after.iter().filter(|(_, st)| !st.is_terminal()).count();
                    if pending_left != 0 {
                        ch.close();
                        return self.v(ctx, false, Violation::new("cancel_ends_the_pending_migration", format!("{pending_left} non-terminal records remain after cancel_migration: {after:?}")));
                    }
                    if !state.is_terminal() && !after.iter().any(|(id, st)| *st == MigrationStatus::Cancelled && !history.iter().any(|(h, _)| h == id)) {
                        ch.close();
                        return self.v(ctx, false, Violation::new("cancel_ends_the_pending_migration", format!("the pending migration is not recorded Cancelled: {after:?}")));
                    }
                    ctx.probe("migration_cancelled_in_store");
                    ctx.event("migration cancelled; run ends");
                    ch.close();
                    return Ok(());
                }
                // ---- consumer restarts from the store
                _ => {
                    ctx.op("party_restart");
                    ctx.fault("party_restart");
                    match store.get_migration() {
                        Ok(Some(s)) => {
                            if s != state {
                                // only in-memory marks not yet persisted may be lost; lifecycle states never go back
                                for (a, b) in state.transactions().iter().zip(s.transactions()) {
                                    if rank(&b.state()) > rank(&a.state()) {
                                        ch.close();
                                        return self.v(ctx, false, Violation::new("store_never_ahead_of_memory", format!("{:?}: memory {:?}, store {:?}", a.id(), a.state(), b.state())));
                                    }
                                }
                            }
                            state = s;
                        }
                        Ok(None) => {
                            if !state.is_terminal() {
                                // nothing durable: the initial save must have happened
                                ch.close();
                                return self.v(ctx, false, Violation::new("committed_migration_is_durable", "the store returns no migration although a non-terminal one was saved".to_string()));
                            }
                            surfaced_end = true;
                        }
                        Err(_) => {}
                    }
                }
            }
            ch.close();
            // ---- invariants after every event
            if let Some(st) = was_terminal {
                if state.status() != st {
                    return self.v(ctx, false, Violation::new("terminal_status_absorbing", format!("{st:?} -> {:?} after event {ev}", state.status())));
                }
            } else if state.is_terminal() {
                was_terminal = Some(state.status());
            }
            if let Some((conn, _)) = store.sql.as_ref() {
                let terminal: Vec<String> = MigrationStatus::terminal().map(|s| format!("'{}'", AsRef::<str>::as_ref(&s))).collect();
                let n: i64 = conn.query_row(&format!("SELECT count(*) FROM orchard_ironwood_migrations WHERE status NOT IN ({})", terminal.join(",")), [], |r| r.get(0)).unwrap_or(0);
                ctx.oracle("at_most_one_nonterminal_migration");
                if n > 1 {
                    return self.v(ctx, false, Violation::new("at_most_one_nonterminal_migration", format!("{n} non-terminal migrations stored for one account")));
                }
            }
            if (self.owns17() && !use_arb) || (!self.owns17() && ev % 8 == 0) {
                self.check_wakeups(ctx, &state, world.tip, &mut rng)?;
            }
        }

        // ---- faults stop: cooperative miner, synced wallet, no skew; the migration must finish or surface
        // (arbitrary generator states are not committed migrations: dependency cycles, unsigned placeholders and random
        // schedules are representable; only the safety invariants above apply to them)
        if !surfaced_end && !state.is_terminal() && !use_arb {
            world.skew = 0;
            store.fail_next = 0;
            // a transaction nobody relayed either reaches a miner after all, or stays unmined until it expires (then the
            // engine has to notice that it, and everything below it, can no longer move)
            if ch.chance("final.unrelayed_reaches_miner", 1, 2) {
                for p in world.mempool.values_mut() {
                    if p.include_at.is_none() {
                        p.include_at = Some(world.tip + 1);
                    }
                }
            } else if world.mempool.values().any(|p| p.include_at.is_none()) {
                ctx.probe("unrelayed_transaction_left_to_expire");
            }
            let mut idle = 0u32;
            let mut iters = 0u64;
            let budget = 60_000u64;
            loop {
                iters += 1;
                if iters > budget || world.tip >= u32::MAX - 3 {
                    break;
                }
                world.scanned = world.tip;
                let step = drive!(false);
                let Some(step) = step else { break };
                if ctx.verbose && (iters < 40 || iters % 10_000 == 0) {
                    let summary: Vec<String> = state.transactions().iter().map(summarize_tx).collect();
                    ctx.event(format!("final phase iter {iters} tip {} step {:?} mempool {:?}; {summary:?}", world.tip, std::mem::discriminant(&step), world.mempool.values().map(|p| (p.include_at, p.expiry)).collect::<Vec<_>>()));
                }
                match step {
                    AdvanceStep::Prove { transactions } => {
                        idle = 0;
                        let proved_before = state.transactions().iter().filter(|t| matches!(t.state(), MigrationTxState::Proved)).count();
                        for p in transactions {
                            if let Some(t) = state.transactions().iter().find(|t| t.id() == p.id()).cloned() {
                                let _ = prove_one!(&t, false);
                            }
                        }
                        // "not yet provable: retry after further sync" — the chain moves on
                        if state.transactions().iter().filter(|t| matches!(t.state(), MigrationTxState::Proved)).count() == proved_before {
                            world.mine_block(ctx);
                        }
                    }
                    AdvanceStep::Broadcast { id } => {
                        idle = 0;
                        let t = state.transactions().iter().find(|t| t.id() == id).cloned().unwrap();
                        world.mempool.insert(*t.txid().as_ref(), Pending { include_at: Some(world.tip + 1), expiry: u32::from(t.expiry_height()) });
                        state.mark_broadcast(id);
                        persist(&mut store, &state, ctx);
                    }
                    AdvanceStep::Rebuild { .. } | AdvanceStep::Replan => {
                        ctx.probe("surfaced_after_faults");
                        surfaced_end = true;
                        break;
                    }
                    AdvanceStep::Complete => {
                        ctx.probe("completed_after_faults");
                        surfaced_end = true;
                        break;
                    }
                    AdvanceStep::Reevaluate => {
                        idle = 0;
                        world.mine_block(ctx);
                    }
                    AdvanceStep::Waiting => {
                        // Waiting must have a reason the passage of blocks can remove: something to be mined, a schedule
                        // or anchor in the future, or a broadcast transaction whose expiry has not passed yet (after which
                        // Rebuild / Replan must surface). The clock jumps to the next height at which anything can change.
                        let eff = world.tip + 1;
                        let mut next: Vec<u32> = vec![];
                        for (t, p) in world.mempool.iter() {
                            // only what a miner can actually include: funded by mined transactions (a child waits for its
                            // parent, and with it for whatever the parent waits for)
                            let funded = world.funded_by.get(t).map(|f| f.iter().all(|x| world.mined.contains_key(x))).unwrap_or(true);
                            if let (Some(a), true) = (p.include_at, funded) {
                                next.push(a.max(eff));
                            }
                        }
                        // transactions that can never mine: marked unsatisfiable, or expired unmined at the scanned target,
                        // and everything that depends on one of them, to any depth. Waiting for such a transaction's own
                        // schedule or expiry changes nothing: when every unmined transaction is dead the engine must say so.
                        let target = world.scanned.saturating_add(1);
                        let mut dead: BTreeSet<MigrationTransferId> = state
                            .transactions()
                            .iter()
                            .filter(|t| !matches!(t.state(), MigrationTxState::Mined { .. }) && !world.mined.contains_key(t.txid().as_ref()) && (t.unsatisfiable().is_some() || u32::from(t.expiry_height()) < target))
                            .map(|t| t.id())
                            .collect();
                        loop {
                            let more: Vec<MigrationTransferId> = state.transactions().iter().filter(|t| !matches!(t.state(), MigrationTxState::Mined { .. }) && !dead.contains(&t.id()) && t.depends_on().iter().any(|d| dead.contains(d))).map(|t| t.id()).collect();
                            if more.is_empty() {
                                break;
                            }
                            dead.extend(more);
                        }
                        if dead.len() >= 3 {
                            ctx.probe("dead_set_depth_reached");
                        }
                        if !dead.is_empty() && state.transactions().iter().all(|t| matches!(t.state(), MigrationTxState::Mined { .. }) || dead.contains(&t.id())) {
                            ctx.probe("waiting_while_every_unmined_transaction_is_dead");
                        }
                        for t in state.transactions() {
                            if dead.contains(&t.id()) {
                                continue;
                            }
                            match t.state() {
                                MigrationTxState::Mined { .. } => {}
                                MigrationTxState::Broadcast { .. } => {
                                    if world.mined.contains_key(t.txid().as_ref()) {
                                        next.push(eff);
                                    } else if u32::from(t.expiry_height()) >= world.scanned {
                                        next.push(u32::from(t.expiry_height()).saturating_add(1));
                                    }
                                }
                                _ => {
                                    if t.unsatisfiable().is_none() {
                                        if u32::from(t.scheduled_height()) > eff {
                                            next.push(u32::from(t.scheduled_height()));
                                        }
                                        if let Some(a) = t.anchor_boundary() {
                                            if u32::from(a) + scheduling::PROVABLE_ANCHOR_DEPTH > world.scanned {
                                                next.push(u32::from(a) + scheduling::PROVABLE_ANCHOR_DEPTH + 1);
                                            }
                                        }
                                        if u32::from(t.expiry_height()) >= world.scanned {
                                            next.push(u32::from(t.expiry_height()).saturating_add(1));
                                        }
                                    }
                                }
                            }
                        }
                        ctx.oracle("waiting_has_a_reason");
                        match next.iter().min().copied() {
                            None => {
                                idle += 1;
                                if idle > 3 {
                                    let summary: Vec<String> = state.transactions().iter().map(summarize_tx).collect();
                                    return self.v(ctx, false, Violation::new("progress_after_faults_stop", format!("with a cooperative miner and a synced wallet the migration answers Waiting although nothing is in flight, nothing is scheduled or settling in the future and no unmined transaction has an expiry still to pass (tip {}, status {:?}): {summary:?}", world.tip, state.status())));
                                }
                                world.mine_block(ctx);
                            }
                            Some(h) => {
                                idle = 0;
                                if h > world.tip.saturating_add(2) && h < u32::MAX - 3 {
                                    // nothing can happen before h: jump
                                    ctx.time("blocks_jumped", (h - 1 - world.tip) as u64);
                                    world.tip = h - 1;
                                }
                                world.mine_block(ctx);
                            }
                        }
                    }
                }
            }
            if !surfaced_end && iters > budget {
                return self.v(ctx, false, Violation::new("progress_after_faults_stop", format!("the migration neither completed nor surfaced Replan/Rebuild within {budget} drive iterations after the last fault")));
            }
        }
        ctx.time("store_writes", store.writes);
        ctx.time("store_calls", store.calls);
        Ok(())
    }
    fn runs(&self, tier: Tier) -> u64 {
        match (tier, self.prop) {
            (Tier::Quick, "C17") => 300_000,
            (Tier::Quick, _) => 30_000,
            (Tier::Thorough, "C17") => 5_000_000,
            (Tier::Thorough, _) => 600_000,
        }
    }
    fn budget_s(&self, tier: Tier) -> u64 {
        match tier {
            Tier::Quick => 100,
            Tier::Thorough => 1200,
        }
    }
    fn rule(&self) -> &'static str {
        "one run = one migration (built through the real scheduling functions over a drawn grid / activation / commit height and RNG stream kind, or an arbitrary representable state from the crate's generator) driven by the documented consumer loop inside a discrete-event world (miner, node, reorgs with re-mining, foreign spends, scan lag, estimate skew and jumps, sleeps, broadcast rejection / lost record / never mined, store errors, restarts), then a fault-free phase; non-trivial = a fault fired or a rare step (Rebuild/Replan/Reevaluate, rollback un-mining, overdue shift) was reached; distinct = distinct hash of (configuration class, event kinds, step kinds, fault kinds)"
    }
    fn components(&self) -> serde_json::Value {
        json!({"zcash_pool_migration: advance_migration, MigrationState mutators, scheduling (schedule, anchors, expiry, wake-ups), classify_input_observations": "real",
               "zcash_client_sqlite PoolMigrations store (replace/get/latest) for every persisted write in a share of the runs": "real",
               "satisfiability oracle / mined_height": "stub answering from the simulated chain (composed through the crate's classify_input_observations)",
               "chain, miner, mempool, node, consumer I/O": "stub (discrete-event world)",
               "proving / PCZT contents": "stub (opaque bytes; the engine never parses them on this path)"})
    }
    fn assumptions(&self) -> Vec<&'static str> {
        vec![
            "the consumer only issues the calls the drive-loop documentation prescribes (mark_broadcast after a served Broadcast step, mark_superseded after Replan/Rebuild, re-read after an error)",
            "Rebuild is answered by superseding the migration (rebuilding needs spend authority and a real wallet)",
            "RNG streams are restricted to kinds under which the documented rejection loops terminate; a draw budget turns non-termination into a reported failure",
            "minimality of the wake-up set and the evidence-monotonicity clause of C17 are auxiliary (brute force on <=10 windows); the claim rests on the artefact invariants checked while the clock runs",
        ]
    }
    fn expected_probes(&self) -> Vec<&'static str> {
        vec!["broadcast_offered", "rollback_unmined", "replan_surfaced", "rebuild_surfaced", "reevaluate_surfaced", "completed_after_faults", "complete_reverted_by_rollback"]
    }
    fn fault_kinds(&self) -> Vec<&'static str> {
        vec!["reorg", "foreign_spend", "store_error@call", "broadcast_rejected", "broadcast_rejected_already_known", "broadcast_lost_record", "prover_error", "never_mined", "wallet_sleep", "scan_lag", "clock_skew", "clock_jump", "party_restart"]
    }
    fn time_note(&self) -> &'static str {
        "simulated time = blocks mined in the discrete-event world (the block height is the clock)"
    }
}

#[allow(dead_code)]
fn _u(_: u64) -> u64 {
    mix(0, 0)
}


// ---------------------------------------------------------------- shared with the C02 sweep

/// A small committed migration over a wallet's real Orchard nullifiers, in a mix of lifecycle states with mined
/// heights, unsatisfiability marks and failure reports spread over `lo..=hi`, so that a wallet rewind has
/// something to roll back and the satisfiability oracle has something to look up.
pub fn sample_migration_state(salt: u64, lo: u32, hi: u32, nfs: &[[u8; 32]]) -> Option<MigrationState> {
    use zcash_pool_migration::satisfiability::UnsatisfiableKind;
    let mut r = SubRng::new(salt);
    let span = (hi.max(lo) - lo + 1) as u64;
    let pick_h = |r: &mut SubRng| BlockHeight::from_u32(lo + r.below(span) as u32);
    let nf_for = |r: &mut SubRng, i: usize| -> [u8; 32] { if nfs.is_empty() { r.bytes32() } else { nfs[i % nfs.len()] } };
    let n_tr = 2 + r.below(3) as usize;
    let mut txs = vec![];
    let prep_txid = TxId::from_bytes(r.bytes32());
    let prep_state = match r.below(3) {
        0 => MigrationTxState::Mined { txid: prep_txid, height: pick_h(&mut r) },
        1 => MigrationTxState::Broadcast { txid: prep_txid },
        _ => MigrationTxState::Proved,
    };
    let sched = BlockHeight::from_u32(lo);
    txs.push(MigrationTransaction::from_parts(MigrationTransferId::new(0), MigrationTxKind::Preparation { layer: 0, index: 0 }, r.bytes32().to_vec(), vec![], sched, scheduling::expiry_height(sched), None, prep_txid, prep_state, None, None, vec![nf_for(&mut r, 0)], None));
    for i in 0..n_tr {
        let txid = TxId::from_bytes(r.bytes32());
        let prep_mined = matches!(prep_state, MigrationTxState::Mined { .. });
        let (st, unsat, fail) = match r.below(6) {
            0 if prep_mined => (MigrationTxState::Mined { txid, height: pick_h(&mut r) }, None, None),
            1 if prep_mined => (MigrationTxState::Broadcast { txid }, None, None),
            2 => (MigrationTxState::Proved, None, Some(pick_h(&mut r))),
            3 => (MigrationTxState::Signed, Some((pick_h(&mut r), UnsatisfiableKind::InputsSpent)), None),
            4 => (MigrationTxState::Proved, None, None),
            _ => (MigrationTxState::Signed, None, None),
        };
        let sh = BlockHeight::from_u32(lo + 1 + i as u32);
        txs.push(MigrationTransaction::from_parts(MigrationTransferId::new(1 + i as u32), MigrationTxKind::Transfer { crossing: i }, r.bytes32().to_vec(), vec![MigrationTransferId::new(0)], sh, scheduling::expiry_height(sh), Some(BlockHeight::from_u32(144)), txid, st, None, unsat, vec![nf_for(&mut r, 1 + i)], fail));
    }
    let values: Vec<Zatoshis> = (0..n_tr).map(|_| Zatoshis::const_from_u64(1_000_000 * (1 + r.below(50)))).collect();
    let den = DenominationPlan::from_stored_parts(values, Zatoshis::const_from_u64(15_000), None, Zatoshis::ZERO, Zatoshis::const_from_u64(0), Zatoshis::const_from_u64(0)).ok()?;
    let status = if txs.iter().any(|t| matches!(t.state(), MigrationTxState::Mined { .. } | MigrationTxState::Broadcast { .. })) { MigrationStatus::InProgress } else { MigrationStatus::Committed };
    Some(MigrationState::from_parts(status, den, PreparationPlan::from_parts(vec![], vec![]), txs, AnchorBucketInterval::custom(NonZeroU32::new(144).unwrap()), ReplanThreshold::new(50).unwrap()))
}

/// The transactions of an account's pending migration (read without any concurrency; the arguments of the
/// snapshot reads below).
pub fn pending_transactions(net: zcash_protocol::local_consensus::LocalNetwork, conn: &Connection, acct: zcash_client_sqlite::AccountUuid) -> Vec<MigrationTransaction> {
    PoolMigrations::for_account(net, SimClock(std::sync::Arc::new(1_700_000_000.into())), conn, acct).ok().and_then(|pm| pm.get_migration().ok().flatten()).map(|s| s.transactions().to_vec()).unwrap_or_default()
}

/// The migration store's documented snapshot reads (`check_step_satisfiability`, `mined_height`) for the given
/// transactions: one (call, answer) pair per library call. (`get_migration` and the other multi-statement reads
/// are documented as *not* being snapshots and are not part of this.)
pub fn snapshot_reads(net: zcash_protocol::local_consensus::LocalNetwork, conn: &Connection, acct: zcash_client_sqlite::AccountUuid, txs: &[MigrationTransaction], tag: &str, mark: &dyn Fn()) -> Vec<(String, String)> {
    let pm = match PoolMigrations::for_account(net, SimClock(std::sync::Arc::new(1_700_000_000.into())), conn, acct) {
        Ok(pm) => pm,
        Err(_) => return vec![],
    };
    let mut out = vec![];
    for t in txs {
        let key = hex::encode(&t.txid().as_ref()[..6]);
        if !matches!(t.state(), MigrationTxState::Mined { .. }) {
            mark();
            out.push((format!("{tag}/sat/{key}"), format!("{:?}", pm.check_step_satisfiability(t, ReorgSettleDepth::new(3)).map_err(|e| format!("{e:?}")))));
        }
        mark();
        out.push((format!("{tag}/mined_height/{key}"), format!("{:?}", pm.mined_height(t.txid()).map_err(|e| format!("{e:?}")))));
    }
    out
}

pub fn store_migration(net: zcash_protocol::local_consensus::LocalNetwork, conn: &mut Connection, acct: zcash_client_sqlite::AccountUuid, state: &MigrationState) -> Result<String, String> {
    let mut pm = PoolMigrations::for_account(net, SimClock(std::sync::Arc::new(1_700_000_000.into())), conn, acct).map_err(|e| format!("{e:?}"))?;
    pm.replace_migration(state).map(|_| "stored".to_string()).map_err(|e| format!("{e:?}"))
}

pub fn cancel_migration(net: zcash_protocol::local_consensus::LocalNetwork, conn: &mut Connection, acct: zcash_client_sqlite::AccountUuid) -> Result<String, String> {
    let mut pm = PoolMigrations::for_account(net, SimClock(std::sync::Arc::new(1_700_000_000.into())), conn, acct).map_err(|e| format!("{e:?}"))?;
    pm.cancel_migration().map(|o| format!("{o:?}")).map_err(|e| format!("{e:?}"))
}
