//! C13 — the PCZT roles as parties that share nothing but serialized PCZTs sent over a lossy,
//! duplicating, reordering, delaying and corrupting transport; a party's durable state is the
//! bytes it was sent. Monitors: txid invariance after every role, encoding round trip and
//! default-encoding choice, combiner independence of order / grouping / duplication and conflict
//! detection, extraction iff every required contribution has arrived.
//!
//! Transparent pipelines are built afresh in every run (shape drawn from the choice stream);
//! shielded pipelines (Sapling + Orchard in the v5 format, Ironwood in the v6 format) are built and
//! proven once per process and then driven through the same party simulation.

use std::collections::BTreeSet;
use std::sync::{Arc, OnceLock};

use orchard::tree::MerkleHashOrchard;
use pczt::roles::combiner::Combiner;
use pczt::roles::creator::Creator;
use pczt::roles::io_finalizer::IoFinalizer;
use pczt::roles::prover::Prover;
use pczt::roles::redactor::Redactor;
use pczt::roles::signer::Signer;
use pczt::roles::spend_finalizer::SpendFinalizer;
use pczt::roles::tx_extractor::TransactionExtractor;
use pczt::roles::updater::Updater;
use pczt::Pczt;
use serde_json::json;
use shardtree::{store::memory::MemoryShardStore, ShardTree};
use transparent::address::TransparentAddress;
use transparent::bundle::{OutPoint, TxOut};
use transparent::keys::{AccountPrivKey, IncomingViewingKey};
use zcash_note_encryption::try_note_decryption;
use zcash_primitives::transaction::builder::{BuildConfig, Builder, BundlePadding, PcztResult};
use zcash_primitives::transaction::fees::zip317;
use zcash_proofs::prover::LocalTxProver;
use zcash_protocol::consensus::BlockHeight;
use zcash_protocol::local_consensus::LocalNetwork;
use zcash_protocol::memo::{Memo, MemoBytes};
use zcash_protocol::value::Zatoshis;

use crate::choices::{Choices, SubRng};
use crate::runner::catch;
use crate::sim::{RunCtx, Scenario, SimResult, Tier, Violation};
use crate::wallet::full_net;

fn header_version(b: &[u8]) -> Option<u32> {
    if b.len() < 8 || &b[..4] != b"PCZT" {
        return None;
    }
    Some(u32::from_le_bytes([b[4], b[5], b[6], b[7]]))
}

fn contains(hay: &[u8], needle: &[u8]) -> bool {
    hay.windows(needle.len()).any(|w| w == needle)
}

/// What a party does with bytes it receives before using them: parse, then restore compacted fields
/// (`Pczt::resolve_fields`, the documented consumer step for copies a Redactor compacted).
fn parse_resolved(b: &[u8]) -> Result<Pczt, String> {
    let mut p = Pczt::parse(b).map_err(|e| format!("{e:?}"))?;
    p.resolve_fields().map_err(|e| format!("resolve_fields: {e:?}"))?;
    Ok(p)
}

fn ser(p: &Pczt) -> Result<Vec<u8>, Violation> {
    catch(|| p.clone().serialize()).map_err(|m| Violation::new("no_panic", format!("Pczt::serialize panicked: {m}")))?.map_err(|e| Violation::new("pczt_serialises", format!("{e:?}")))
}

fn txid_of(p: &Pczt) -> Result<[u8; 32], String> {
    match catch(|| zcash_pool_migration::pczt_txid::pczt_txid(p).map(|t| *t.as_ref()).map_err(|e| format!("{e}"))) {
        Ok(r) => r,
        Err(m) => Err(format!("pczt_txid panicked: {m}")),
    }
}

/// Encoding monitor (oracle 2): parse(serialize(p)) re-serialises identically; the default encoding
/// is v1 exactly when the v1 conversion succeeds. Returns the bytes and the version chosen.
fn encoding_monitor(p: &Pczt, what: &str) -> Result<(Vec<u8>, u32), Violation> {
    let b = ser(p)?;
    let q = catch(|| Pczt::parse(&b)).map_err(|m| Violation::new("no_panic", format!("Pczt::parse panicked on its own output ({what}): {m}")))?;
    let q = q.map_err(|e| Violation::new("serialised_pczt_parses", format!("after {what}: {e:?}")))?;
    let b2 = ser(&q)?;
    if b2 != b {
        return Err(Violation::new("encoding_roundtrip", format!("after {what}: parse(serialize(p)) re-serialises to different bytes ({} vs {} bytes)", b.len(), b2.len())));
    }
    let v1_ok = pczt::v1::Pczt::try_from(p.clone()).is_ok();
    let ver = header_version(&b);
    match (v1_ok, ver) {
        (true, Some(1)) => Ok((b, 1)),
        (false, Some(2)) => Ok((b, 2)),
        _ => Err(Violation::new("default_encoding_is_minimal", format!("after {what}: v1 conversion {} but the default encoding has version {ver:?}", if v1_ok { "succeeds" } else { "fails" }))),
    }
}

fn check_encoding(ctx: &mut RunCtx, p: &Pczt, what: &str) -> Result<Vec<u8>, Violation> {
    ctx.oracle("encoding_roundtrip");
    let (b, v) = encoding_monitor(p, what)?;
    ctx.probe(if v == 1 { "v1_encoding_chosen" } else { "v2_encoding_chosen" });
    Ok(b)
}

fn same_txid(p: &Pczt, txid0: &[u8; 32], what: &str) -> Result<(), Violation> {
    match txid_of(p) {
        Ok(t) if &t == txid0 => Ok(()),
        Ok(t) => Err(Violation::new("txid_invariant", format!("role {what} changed the implied txid {} -> {}", hex::encode(&txid0[..6]), hex::encode(&t[..6])))),
        Err(e) => Err(Violation::new("txid_derivable", format!("after {what}: {e}"))),
    }
}

struct Keyed {
    sk: secp256k1::SecretKey,
    pk: secp256k1::PublicKey,
    addr: TransparentAddress,
}

fn key(i: u32) -> Keyed {
    let params = full_net(Some(1));
    let acct = AccountPrivKey::from_seed(&params, &[i as u8 + 1; 32], zip32::AccountId::ZERO).unwrap();
    let (addr, idx) = acct.to_account_pubkey().derive_external_ivk().unwrap().default_address();
    let sk = acct.derive_external_secret_key(idx).unwrap();
    let secp = secp256k1::Secp256k1::signing_only();
    let pk = sk.public_key(&secp);
    Keyed { sk, pk, addr }
}

#[derive(Clone)]
enum Role {
    SignT(usize),
    SignSapling(usize),
    SignOrchard(usize),
    SignIronwood(usize),
    /// a Prover whose (expensive) contribution over the template's base copy was computed once
    Proved(Arc<Vec<u8>>),
    Updater(&'static str),
    Redactor,
    /// a Redactor that compacts what the receiver can re-derive (cv_net, cmx, note ciphertext -> memo plaintext)
    Compactor,
    /// a Redactor that removes the shielded anchors (what a party that must not learn them is sent)
    AnchorRedactor,
}

struct Template {
    name: &'static str,
    /// the copy every party starts from (Creator, IO Finaliser and, where needed, the Updater that
    /// supplies proof generation keys have run)
    base: Vec<u8>,
    txid0: [u8; 32],
    roles: Vec<(String, Role)>,
    required: BTreeSet<String>,
    sapling: bool,
    t_keys: Vec<Keyed>,
    sapling_ask: Option<sapling::keys::SpendAuthorizingKey>,
    orchard_ask: Option<orchard::keys::SpendAuthorizingKey>,
    /// a PCZT for a different transaction over the same inputs (must conflict in the Combiner)
    other_tx: Option<Vec<u8>>,
    /// copies from before `base` (the Creator's, before the IO Finaliser ran; ...): what a slow party may still hold
    earlier: Vec<Vec<u8>>,
}

fn std_roles(roles: &mut Vec<(String, Role)>) {
    roles.push(("updaterA".into(), Role::Updater("A")));
    roles.push(("updaterB".into(), Role::Updater("B")));
    roles.push(("redactor".into(), Role::Redactor));
}

fn cfg_none() -> BuildConfig {
    BuildConfig::Standard { sapling_anchor: None, orchard_anchor: None, ironwood_anchor: None, orchard_padding: BundlePadding::DEFAULT, ironwood_padding: BundlePadding::DEFAULT }
}

/// Creator and IO Finaliser with their monitors.
fn create_and_finalize(parts: zcash_primitives::transaction::builder::PcztParts<LocalNetwork>, edit: &dyn Fn(Pczt) -> Pczt) -> Result<(Pczt, [u8; 32], Vec<u8>), Violation> {
    let pczt = catch(|| Creator::build_from_parts(parts)).map_err(|m| Violation::new("no_panic", format!("Creator panicked: {m}")))?.ok_or_else(|| Violation::new("creator_succeeds", "Creator::build_from_parts returned None"))?;
    let pczt = edit(pczt);
    let (b0, _) = encoding_monitor(&pczt, "Creator")?;
    let txid0 = txid_of(&pczt).map_err(|e| Violation::new("txid_derivable", format!("creator's PCZT: {e}")))?;
    let fin = catch(|| IoFinalizer::new(Pczt::parse(&b0).unwrap()).finalize_io()).map_err(|m| Violation::new("no_panic", format!("IoFinalizer panicked: {m}")))?;
    let fin = fin.map_err(|e| Violation::new("io_finalizer_succeeds", format!("{e:?}")))?;
    encoding_monitor(&fin, "IoFinalizer")?;
    same_txid(&fin, &txid0, "IoFinalizer")?;
    Ok((fin, txid0, b0))
}

/// A transparent-only transaction. `variant` changes one effecting field (an output value).
/// Lock-time content a Constructor may have put into the Creator's copy: the fallback lock time and one
/// input's required height lock time. The repository's own Builder never sets the latter, so it is written
/// through the field-level seam, standing in for a PCZT that came from another implementation.
#[derive(Clone, Copy, Debug, Default)]
struct LockSpec {
    fallback: Option<u32>,
    required_height: Option<(usize, u32)>,
}

fn build_transparent(v6: bool, n_in: usize, n_out: usize, values: &[u64], variant: u64, rng_seed: u64, lock: LockSpec) -> Result<Result<(Pczt, [u8; 32], Vec<u8>), Violation>, String> {
    let params = full_net(if v6 { Some(1) } else { None });
    let keys: Vec<Keyed> = (0..n_in as u32).map(key).collect();
    let dest = key(77).addr;
    let total_in: u64 = values.iter().take(n_in).sum();
    let make = |change: u64| -> Result<Builder<_, ()>, String> {
        let mut b = Builder::new(params, BlockHeight::from_u32(2_000_000), cfg_none());
        for (i, k) in keys.iter().enumerate() {
            let mut h = [0u8; 32];
            h[0] = i as u8 + 1;
            h[31] = 0xAA;
            let coin = TxOut::new(Zatoshis::from_u64(values[i]).map_err(|_| "value")?, k.addr.script().into());
            b.add_transparent_p2pkh_input(k.pk, OutPoint::new(h, i as u32), coin).map_err(|e| format!("{e:?}"))?;
        }
        let pay_each = 10_000 + variant;
        for _ in 0..n_out.saturating_sub(1) {
            b.add_transparent_output(&dest, Zatoshis::from_u64(pay_each).map_err(|_| "value")?).map_err(|e| format!("{e:?}"))?;
        }
        b.add_transparent_output(&keys[0].addr, Zatoshis::from_u64(change).map_err(|_| "value")?).map_err(|e| format!("{e:?}"))?;
        Ok(b)
    };
    let fee = u64::from(make(1000)?.get_fee(&zip317::FeeRule::standard()).map_err(|e| format!("{e:?}"))?);
    let pays = (n_out.saturating_sub(1) as u64) * (10_000 + variant);
    if total_in < pays + fee + 1 {
        return Err("insufficient".into());
    }
    let b = make(total_in - pays - fee)?;
    let PcztResult { pczt_parts, .. } = b.build_for_pczt(SubRng::new(rng_seed), &zip317::FeeRule::standard()).map_err(|e| format!("{e:?}"))?;
    let edit = move |p: Pczt| -> Pczt {
        if lock.fallback.is_none() && lock.required_height.is_none() {
            return p;
        }
        let Ok(mut v) = to_value(&p) else { return p };
        if let Some(n) = lock.fallback {
            if let Some(f) = field_mut(&mut v, &["global", "fallback_lock_time"]) {
                *f = ciborium::Value::Integer(n.into());
            }
        }
        if let Some((i, h)) = lock.required_height {
            let _ = set_input_field(&mut v, i, "required_height_lock_time", ciborium::Value::Integer(h.into()));
        }
        from_value(&v).unwrap_or(p)
    };
    Ok(create_and_finalize(pczt_parts, &edit))
}

fn sapling_prover() -> &'static LocalTxProver {
    static P: OnceLock<LocalTxProver> = OnceLock::new();
    P.get_or_init(LocalTxProver::bundled)
}
fn sapling_vks() -> &'static (sapling::circuit::SpendVerifyingKey, sapling::circuit::OutputVerifyingKey) {
    static P: OnceLock<(sapling::circuit::SpendVerifyingKey, sapling::circuit::OutputVerifyingKey)> = OnceLock::new();
    P.get_or_init(|| sapling_prover().verifying_keys())
}
fn orchard_pk(post_nu6_3: bool) -> &'static orchard::circuit::ProvingKey {
    static A: OnceLock<orchard::circuit::ProvingKey> = OnceLock::new();
    static B: OnceLock<orchard::circuit::ProvingKey> = OnceLock::new();
    if post_nu6_3 {
        B.get_or_init(|| orchard::circuit::ProvingKey::build(orchard::circuit::OrchardCircuitVersion::PostNu6_3))
    } else {
        A.get_or_init(|| orchard::circuit::ProvingKey::build(orchard::circuit::OrchardCircuitVersion::FixedPostNu6_2))
    }
}

fn orchard_vk(post_nu6_3: bool) -> &'static orchard::circuit::VerifyingKey {
    static A: OnceLock<orchard::circuit::VerifyingKey> = OnceLock::new();
    static B: OnceLock<orchard::circuit::VerifyingKey> = OnceLock::new();
    if post_nu6_3 {
        B.get_or_init(|| orchard::circuit::VerifyingKey::build(orchard::circuit::OrchardCircuitVersion::PostNu6_3))
    } else {
        A.get_or_init(|| orchard::circuit::VerifyingKey::build(orchard::circuit::OrchardCircuitVersion::FixedPostNu6_2))
    }
}

fn orchard_note_and_path(ironwood: bool, fvk: &orchard::keys::FullViewingKey, value: u64, rng: &mut SubRng) -> (orchard::Note, orchard::Anchor, orchard::tree::MerklePath) {
    let ivk = fvk.to_ivk(orchard::keys::Scope::External);
    let recipient = fvk.address_at(0u32, orchard::keys::Scope::External);
    let version = if ironwood { orchard::bundle::BundleVersion::ironwood_v3() } else { orchard::bundle::BundleVersion::orchard_v2() };
    let mut ob = orchard::builder::Builder::new(orchard::builder::BundleType::DEFAULT, version, version.default_flags(), orchard::Anchor::empty_tree()).unwrap();
    ob.add_output(None, recipient, orchard::value::NoteValue::from_raw(value), Memo::Empty.encode().into_bytes()).unwrap();
    let (bundle, meta) = ob.build::<i64>(rng).unwrap().unwrap();
    let action = bundle.actions().get(meta.output_action_index(0).unwrap()).unwrap();
    let note = if ironwood {
        let domain = orchard::note_encryption::IronwoodDomain::for_action(action);
        try_note_decryption(&domain, &ivk.prepare(), action).unwrap().0
    } else {
        let domain = orchard::note_encryption::OrchardDomain::for_action(action);
        try_note_decryption(&domain, &ivk.prepare(), action).unwrap().0
    };
    let cmx: orchard::note::ExtractedNoteCommitment = note.commitment().into();
    let leaf = MerkleHashOrchard::from_cmx(&cmx);
    let mut tree = ShardTree::<_, 32, 16>::new(MemoryShardStore::<MerkleHashOrchard, u32>::empty(), 100);
    tree.append(leaf, incrementalmerkletree::Retention::Marked).unwrap();
    tree.checkpoint(9_999_999).unwrap();
    let path = tree.witness_at_checkpoint_depth(0.into(), 0).unwrap().unwrap();
    let anchor = path.root(leaf);
    (note, anchor.into(), path.into())
}

/// v5 format: one transparent input, one Sapling spend, one Orchard spend; Orchard output, Sapling
/// change and a transparent output. Proven once.
fn build_shielded_v5(variant: u64, prove: bool) -> Result<Template, Violation> {
    let harness = |m: String| Violation::new("harness_template", m);
    let mut rng = SubRng::new(0x5EED_0005 + variant);
    let params = full_net(None);
    let tk = key(0);
    let dest = key(77).addr;
    let extsk = sapling::zip32::ExtendedSpendingKey::master(&[1; 32]);
    let dfvk = extsk.to_diversifiable_full_viewing_key();
    let internal_dfvk = extsk.derive_internal().to_diversifiable_full_viewing_key();
    let s_recipient = dfvk.default_address().1;
    let osk = orchard::keys::SpendingKey::from_bytes([0; 32]).unwrap();
    let oask = orchard::keys::SpendAuthorizingKey::from(&osk);
    let ofvk = orchard::keys::FullViewingKey::from(&osk);
    let o_recipient = ofvk.address_at(0u32, orchard::keys::Scope::External);

    let s_note = {
        let mut sb = sapling::builder::Builder::new(sapling::note_encryption::Zip212Enforcement::On, sapling::builder::BundleType::DEFAULT, sapling::Anchor::empty_tree());
        sb.add_output(None, s_recipient, sapling::value::NoteValue::from_raw(1_000_000), Memo::Empty.encode().into_bytes()).unwrap();
        let (bundle, meta) = sb.build::<LocalTxProver, LocalTxProver, _, i64>(&[], &mut rng).unwrap().unwrap();
        let output = bundle.shielded_outputs().get(meta.output_index(0).unwrap()).unwrap();
        let domain = sapling::note_encryption::SaplingDomain::new(sapling::note_encryption::Zip212Enforcement::On);
        try_note_decryption(&domain, &dfvk.to_external_ivk().prepare(), output).unwrap().0
    };
    let (s_anchor, s_path) = {
        let leaf = sapling::Node::from_cmu(&s_note.cmu());
        let mut tree = ShardTree::<_, 32, 16>::new(MemoryShardStore::<sapling::Node, u32>::empty(), 100);
        tree.append(leaf, incrementalmerkletree::Retention::Marked).unwrap();
        tree.checkpoint(9_999_999).unwrap();
        let path = tree.witness_at_checkpoint_depth(0.into(), 0).unwrap().unwrap();
        let anchor: sapling::Anchor = path.root(leaf).into();
        (anchor, path)
    };
    let (o_note, o_anchor, o_path) = orchard_note_and_path(false, &ofvk, 1_000_000, &mut rng);

    let make = |change: u64| -> Result<Builder<_, ()>, String> {
        let mut b = Builder::new(
            params,
            BlockHeight::from_u32(2_000_000),
            BuildConfig::Standard { sapling_anchor: Some(s_anchor), orchard_anchor: Some(o_anchor), ironwood_anchor: None, orchard_padding: BundlePadding::DEFAULT, ironwood_padding: BundlePadding::DEFAULT },
        );
        let mut h = [0x11u8; 32];
        h[0] = 1;
        b.add_transparent_p2pkh_input(tk.pk, OutPoint::new(h, 0), TxOut::new(Zatoshis::const_from_u64(500_000), tk.addr.script().into())).map_err(|e| format!("{e:?}"))?;
        b.add_sapling_spend::<zip317::FeeRule>(dfvk.fvk().clone(), s_note.clone(), s_path.clone()).map_err(|e| format!("{e:?}"))?;
        b.add_orchard_spend::<zip317::FeeRule>(ofvk.clone(), o_note, o_path.clone()).map_err(|e| format!("{e:?}"))?;
        b.add_orchard_output::<zip317::FeeRule>(Some(ofvk.to_ovk(orchard::keys::Scope::External)), o_recipient, Zatoshis::from_u64(100_000 + variant).unwrap(), MemoBytes::from_bytes(b"a memo that is shorter than the field").unwrap()).map_err(|e| format!("{e:?}"))?;
        b.add_transparent_output(&dest, Zatoshis::const_from_u64(50_000)).map_err(|e| format!("{e:?}"))?;
        b.add_sapling_output::<zip317::FeeRule>(Some(dfvk.to_ovk(zip32::Scope::Internal)), internal_dfvk.find_address(0u32.into()).unwrap().1, Zatoshis::from_u64(change).unwrap(), MemoBytes::empty()).map_err(|e| format!("{e:?}"))?;
        Ok(b)
    };
    let fee = u64::from(make(1000).map_err(harness)?.get_fee(&zip317::FeeRule::standard()).map_err(|e| harness(format!("{e:?}")))?);
    let b = make(2_500_000 - 150_000 - variant - fee).map_err(harness)?;
    let PcztResult { pczt_parts, sapling_meta, orchard_meta, .. } = b.build_for_pczt(SubRng::new(0xB01D + variant), &zip317::FeeRule::standard()).map_err(|e| harness(format!("build_for_pczt: {e:?}")))?;
    let (fin, txid0, creator) = create_and_finalize(pczt_parts, &|p| p)?;
    let fin_bytes = ser(&fin)?;
    let s_idx = sapling_meta.spend_index(0).unwrap();
    let o_idx = orchard_meta.spend_action_index(0).unwrap();
    let base_p = Updater::new(fin)
        .update_sapling_with(|mut u| u.update_spend_with(s_idx, |mut su| su.set_proof_generation_key(extsk.expsk.proof_generation_key())))
        .map_err(|e| Violation::new("updater_succeeds", format!("{e:?}")))?
        .finish();
    same_txid(&base_p, &txid0, "Updater(proof generation key)")?;
    let (base, _) = encoding_monitor(&base_p, "Updater(proof generation key)")?;
    let mut roles: Vec<(String, Role)> = vec![("signerT0".into(), Role::SignT(0)), ("signerSapling".into(), Role::SignSapling(s_idx)), ("signerOrchard".into(), Role::SignOrchard(o_idx))];
    if prove {
        let sp = sapling_prover();
        let proved_s = catch(|| Prover::new(base_p.clone()).create_sapling_proofs(sp, sp).map(|p| p.finish())).map_err(|m| Violation::new("no_panic", format!("Prover (Sapling) panicked: {m}")))?.map_err(|e| Violation::new("prover_succeeds", format!("Sapling: {e:?}")))?;
        same_txid(&proved_s, &txid0, "Prover(Sapling)")?;
        let (bs, _) = encoding_monitor(&proved_s, "Prover(Sapling)")?;
        let proved_o = catch(|| Prover::new(base_p.clone()).create_orchard_proof(orchard_pk(false)).map(|p| p.finish())).map_err(|m| Violation::new("no_panic", format!("Prover (Orchard) panicked: {m}")))?.map_err(|e| Violation::new("prover_succeeds", format!("Orchard: {e:?}")))?;
        same_txid(&proved_o, &txid0, "Prover(Orchard)")?;
        let (bo, _) = encoding_monitor(&proved_o, "Prover(Orchard)")?;
        roles.push(("proverSapling".into(), Role::Proved(Arc::new(bs))));
        roles.push(("proverOrchard".into(), Role::Proved(Arc::new(bo))));
    }
    let required = roles.iter().map(|(n, _)| n.clone()).collect();
    std_roles(&mut roles);
    roles.push(("compactor".into(), Role::Compactor));
    roles.push(("anchorRedactor".into(), Role::AnchorRedactor));
    let other_tx = if prove { build_shielded_v5(variant + 1, false).ok().map(|t| t.base) } else { None };
    Ok(Template { name: "v5_t+sapling+orchard", base, txid0, roles, required, sapling: true, t_keys: vec![tk], sapling_ask: Some(extsk.expsk.ask.clone()), orchard_ask: Some(oask), other_tx, earlier: vec![creator, fin_bytes] })
}

/// v6 format: one transparent input and one Ironwood spend; Ironwood output and a transparent output.
fn build_shielded_v6(variant: u64, prove: bool) -> Result<Template, Violation> {
    let harness = |m: String| Violation::new("harness_template", m);
    let mut rng = SubRng::new(0x5EED_0006 + variant);
    let params = full_net(Some(1));
    let tk = key(0);
    let dest = key(77).addr;
    let osk = orchard::keys::SpendingKey::from_bytes([0; 32]).unwrap();
    let oask = orchard::keys::SpendAuthorizingKey::from(&osk);
    let ofvk = orchard::keys::FullViewingKey::from(&osk);
    let recipient = ofvk.address_at(0u32, orchard::keys::Scope::External);
    let (note, anchor, path) = orchard_note_and_path(true, &ofvk, 1_000_000, &mut rng);
    let make = |change: u64| -> Result<Builder<_, ()>, String> {
        let mut b = Builder::new(
            params,
            BlockHeight::from_u32(2_000_000),
            BuildConfig::Standard { sapling_anchor: None, orchard_anchor: None, ironwood_anchor: Some(anchor), orchard_padding: BundlePadding::DEFAULT, ironwood_padding: BundlePadding::DEFAULT },
        );
        let mut h = [0x22u8; 32];
        h[0] = 1;
        b.add_transparent_p2pkh_input(tk.pk, OutPoint::new(h, 0), TxOut::new(Zatoshis::const_from_u64(500_000), tk.addr.script().into())).map_err(|e| format!("{e:?}"))?;
        b.add_ironwood_spend::<zip317::FeeRule>(ofvk.clone(), note, path.clone()).map_err(|e| format!("{e:?}"))?;
        b.add_ironwood_output::<zip317::FeeRule>(Some(ofvk.to_ovk(orchard::keys::Scope::External)), recipient, Zatoshis::from_u64(change).unwrap(), MemoBytes::from_bytes(&[0x5a; 512]).unwrap()).map_err(|e| format!("{e:?}"))?;
        b.add_transparent_output(&dest, Zatoshis::from_u64(50_000 + variant).unwrap()).map_err(|e| format!("{e:?}"))?;
        Ok(b)
    };
    let fee = u64::from(make(1000).map_err(harness)?.get_fee(&zip317::FeeRule::standard()).map_err(|e| harness(format!("{e:?}")))?);
    let b = make(1_500_000 - 50_000 - variant - fee).map_err(harness)?;
    let PcztResult { pczt_parts, ironwood_meta, .. } = b.build_for_pczt(SubRng::new(0xB02D + variant), &zip317::FeeRule::standard()).map_err(|e| harness(format!("build_for_pczt: {e:?}")))?;
    let (fin, txid0, creator) = create_and_finalize(pczt_parts, &|p| p)?;
    let idx = ironwood_meta.spend_action_index(0).unwrap();
    let (base, _) = encoding_monitor(&fin, "IoFinalizer")?;
    let mut roles: Vec<(String, Role)> = vec![("signerT0".into(), Role::SignT(0)), ("signerIronwood".into(), Role::SignIronwood(idx))];
    if prove {
        let proved = catch(|| Prover::new(fin.clone()).create_ironwood_proof(orchard_pk(true)).map(|p| p.finish())).map_err(|m| Violation::new("no_panic", format!("Prover (Ironwood) panicked: {m}")))?.map_err(|e| Violation::new("prover_succeeds", format!("Ironwood: {e:?}")))?;
        same_txid(&proved, &txid0, "Prover(Ironwood)")?;
        let (bp, _) = encoding_monitor(&proved, "Prover(Ironwood)")?;
        roles.push(("proverIronwood".into(), Role::Proved(Arc::new(bp))));
    }
    let required = roles.iter().map(|(n, _)| n.clone()).collect();
    std_roles(&mut roles);
    roles.push(("compactor".into(), Role::Compactor));
    roles.push(("anchorRedactor".into(), Role::AnchorRedactor));
    let other_tx = if prove { build_shielded_v6(variant + 1, false).ok().map(|t| t.base) } else { None };
    Ok(Template { name: "v6_t+ironwood", base, txid0, roles, required, sapling: false, t_keys: vec![tk], sapling_ask: None, orchard_ask: Some(oask), other_tx, earlier: vec![creator] })
}

fn shielded(v6: bool) -> &'static Result<Template, Violation> {
    static A: OnceLock<Result<Template, Violation>> = OnceLock::new();
    static B: OnceLock<Result<Template, Violation>> = OnceLock::new();
    let build = move || match catch(|| if v6 { build_shielded_v6(0, true) } else { build_shielded_v5(0, true) }) {
        Ok(r) => r,
        Err(m) => Err(Violation::new("no_panic", format!("building / proving the shielded template panicked: {m}"))),
    };
    if v6 {
        B.get_or_init(build)
    } else {
        A.get_or_init(build)
    }
}

#[derive(Clone)]
struct Msg {
    from: String,
    bytes: Vec<u8>,
    /// damaged in transit, or changed by a faulty party (then `what` says which field)
    corrupted: bool,
    what: String,
}

impl Template {
    /// A party parses what it was sent (its only state), applies its role and replies with bytes.
    /// Ok(None) = the party could not parse the message or refused.
    fn apply(&self, name: &str, role: &Role, bytes: &[u8], ctx: &mut RunCtx) -> Result<Option<Vec<u8>>, Violation> {
        let p = match catch(|| Pczt::parse(bytes)).map_err(|m| Violation::new("no_panic", format!("Pczt::parse panicked: {m}")))? {
            Ok(p) => p,
            Err(_) => return Ok(None),
        };
        if let Role::Proved(b) = role {
            return Ok(Some(b.as_ref().clone()));
        }
        // the identifier monitor applies to copies whose identifier is ours to begin with (a copy into which a
        // damaged message was merged may no longer assemble into a transaction at all)
        let input_ok = txid_of(&p).map(|t| t == self.txid0).unwrap_or(false);
        let out: Result<Result<Pczt, String>, String> = catch(|| -> Result<Pczt, String> {
            match role {
                Role::SignT(i) => {
                    let mut s = Signer::new(p).map_err(|e| format!("{e:?}"))?;
                    s.sign_transparent(*i, &self.t_keys[*i].sk).map_err(|e| format!("{e:?}"))?;
                    Ok(s.finish())
                }
                Role::SignSapling(i) => {
                    let mut s = Signer::new(p).map_err(|e| format!("{e:?}"))?;
                    s.sign_sapling(*i, self.sapling_ask.as_ref().unwrap()).map_err(|e| format!("{e:?}"))?;
                    Ok(s.finish())
                }
                Role::SignOrchard(i) => {
                    let mut s = Signer::new(p).map_err(|e| format!("{e:?}"))?;
                    s.sign_orchard(*i, self.orchard_ask.as_ref().unwrap()).map_err(|e| format!("{e:?}"))?;
                    Ok(s.finish())
                }
                Role::SignIronwood(i) => {
                    let mut s = Signer::new(p).map_err(|e| format!("{e:?}"))?;
                    s.sign_ironwood(*i, self.orchard_ask.as_ref().unwrap()).map_err(|e| format!("{e:?}"))?;
                    Ok(s.finish())
                }
                Role::Updater(tag) => {
                    let tag = tag.to_string();
                    Ok(Updater::new(p)
                        .update_global_with(|mut g| {
                            g.set_proprietary(format!("zsim.note.{tag}"), tag.as_bytes().to_vec());
                        })
                        .finish())
                }
                Role::Redactor => Ok(Redactor::new(p)
                    .redact_global_with(|mut g| {
                        g.clear_proprietary();
                    })
                    .finish()),
                Role::Compactor => Ok(Redactor::new(p)
                    .redact_orchard_with(|mut r| r.compact_resolvable_fields())
                    .redact_ironwood_with(|mut r| r.compact_resolvable_fields())
                    .finish()),
                Role::AnchorRedactor => Ok(Redactor::new(p)
                    .redact_sapling_with(|mut r| r.clear_anchor())
                    .redact_orchard_with(|mut r| r.clear_anchor())
                    .redact_ironwood_with(|mut r| r.clear_anchor())
                    .finish()),
                Role::Proved(_) => unreachable!(),
            }
        });
        match out {
            Err(m) => Err(Violation::new("no_panic", format!("role {name} panicked: {m}"))),
            Ok(Err(e)) => {
                ctx.event(format!("{name} refused: {e}"));
                Ok(None)
            }
            Ok(Ok(q)) => {
                let b = check_encoding(ctx, &q, name)?;
                if !input_ok {
                    return Ok(Some(b));
                }
                ctx.oracle("txid_invariant");
                if matches!(role, Role::Compactor) {
                    // the documented consumer side: restore the compacted fields, then read the identifier
                    let mut r = Pczt::parse(&b).map_err(|e| Violation::new("serialised_pczt_parses", format!("{name}: {e:?}")))?;
                    match catch(|| r.resolve_fields().map(|_| r)) {
                        Err(m) => return Err(Violation::new("no_panic", format!("resolve_fields panicked on a compacted copy: {m}"))),
                        Ok(Err(e)) => return Err(Violation::new("compacted_fields_resolve", format!("resolve_fields failed on the copy the Redactor compacted: {e:?}"))),
                        Ok(Ok(r)) => {
                            same_txid(&r, &self.txid0, "Redactor(compact)+resolve_fields")?;
                            ctx.probe("compacted_copy_resolved");
                        }
                    }
                } else if matches!(role, Role::AnchorRedactor) {
                    // without its anchors a v5 copy implies no identifier at all (the anchors are part of it); it may never
                    // imply a *different* one
                    match txid_of(&q) {
                        Ok(t) if t != self.txid0 => return Err(Violation::new("txid_invariant", format!("after the anchors were redacted the copy implies txid {} instead of {} (or none)", hex::encode(&t[..6]), hex::encode(&self.txid0[..6])))),
                        Ok(_) => ctx.probe("anchorless_copy_still_identified"),
                        Err(_) => ctx.probe("anchorless_copy_implies_no_identifier"),
                    }
                } else {
                    same_txid(&q, &self.txid0, name)?;
                }
                Ok(Some(b))
            }
        }
    }

    /// Spend Finaliser + Extractor on a copy; Ok(txid) or Err(reason).
    fn try_extract(&self, bytes: &[u8]) -> Result<Result<[u8; 32], String>, Violation> {
        let p = match Pczt::parse(bytes) {
            Ok(p) => p,
            Err(e) => return Ok(Err(format!("{e:?}"))),
        };
        let sapling = self.sapling;
        let shielded = self.orchard_ask.is_some();
        let r = catch(|| -> Result<[u8; 32], String> {
            let f = SpendFinalizer::new(p).finalize_spends().map_err(|e| format!("spend finaliser: {e:?}"))?;
            let tx = if sapling {
                let (svk, ovk) = sapling_vks();
                TransactionExtractor::new(f).with_sapling(svk, ovk).with_orchard(orchard_vk(false)).extract().map_err(|e| format!("extractor: {e:?}"))?
            } else if shielded {
                TransactionExtractor::new(f).with_orchard(orchard_vk(true)).extract().map_err(|e| format!("extractor: {e:?}"))?
            } else {
                TransactionExtractor::new(f).extract().map_err(|e| format!("extractor: {e:?}"))?
            };
            Ok(*tx.txid().as_ref())
        });
        r.map_err(|m| Violation::new("no_panic", format!("SpendFinalizer / TransactionExtractor panicked: {m}")))
    }

    /// Adds, over a clean transport, every required contribution not in `have`, combining each reply.
    fn complete(&self, start: &[u8], have: &BTreeSet<String>, ctx: &mut RunCtx) -> Result<Vec<u8>, Violation> {
        let mut cur = Pczt::parse(start).map_err(|e| Violation::new("serialised_pczt_parses", format!("{e:?}")))?;
        for (name, role) in &self.roles {
            if self.required.contains(name) && !have.contains(name) {
                match self.apply(name, role, &ser(&cur)?, ctx)? {
                    Some(b) => {
                        let p = Pczt::parse(&b).map_err(|e| Violation::new("serialised_pczt_parses", format!("{name}: {e:?}")))?;
                        cur = catch(|| Combiner::new(vec![cur.clone(), p]).combine()).map_err(|m| Violation::new("no_panic", format!("Combiner panicked: {m}")))?.map_err(|e| Violation::new("honest_copies_combine", format!("adding {name}'s reply: {e:?}")))?;
                    }
                    None => return Err(Violation::new("role_succeeds_on_wellformed_pczt", format!("{name} refused a well-formed copy"))),
                }
            }
        }
        ser(&cur)
    }
}

pub struct PcztSim;

impl PcztSim {
    fn drive(&self, t: &Template, ch: &mut Choices, ctx: &mut RunCtx) -> SimResult {
        let base = t.base.clone();
        let txid0 = t.txid0;
        let mut current = base.clone();
        let mut history: Vec<Vec<u8>> = t.earlier.clone();
        history.push(base.clone());
        let mut transit: Vec<Msg> = vec![];
        let mut honest_replies: Vec<Vec<u8>> = vec![];
        let mut labels: std::collections::BTreeMap<Vec<u8>, String> = Default::default();
        labels.insert(base.clone(), "base".into());
        for (i, e) in t.earlier.iter().enumerate() {
            labels.insert(e.clone(), format!("earlier{i}"));
        }
        let mut honest_roles: BTreeSet<String> = BTreeSet::new();
        let mut delivered: BTreeSet<String> = BTreeSet::new();
        let mut signed_once: std::collections::BTreeMap<String, Vec<u8>> = Default::default();
        let mut tainted = false; // a corrupted message was merged into `current`
        let n_steps = 6 + ch.below("n_steps", 34);
        let faulty = ch.chance("transport_faults", 3, 4);

        for _ in 0..n_steps {
            if !ch.more() {
                break;
            }
            ch.open("step");
            let k = ch.weighted("step", &[42, 42, 8, if faulty { 6 } else { 0 }, if faulty { 2 } else { 0 }]);
            let r: SimResult = (|| {
                match k {
                    // ---- dispatch the current (or a stale) copy to a party
                    0 => {
                        let (name, role) = t.roles[ch.idx("role", t.roles.len())].clone();
                        let stale = faulty && history.len() > 1 && ch.chance("stale", 1, 4);
                        let sent = if stale {
                            ctx.fault("msg_delay_stale");
                            history[ch.idx("stale.i", history.len())].clone()
                        } else {
                            current.clone()
                        };
                        ctx.op(&format!("dispatch_{}", name.trim_end_matches(char::is_numeric)));
                        // a party whose signature is randomised signs once; asked again it retransmits its reply
                        let randomised = matches!(role, Role::SignSapling(_) | Role::SignOrchard(_) | Role::SignIronwood(_));
                        let reply = match signed_once.get(&name) {
                            Some(b) if randomised => {
                                ctx.event(format!("{name} retransmits"));
                                Some(b.clone())
                            }
                            _ => t.apply(&name, &role, &sent, ctx)?,
                        };
                        ctx.event(format!("dispatch {name}{} -> {}", if stale { " (stale copy)" } else { "" }, if reply.is_some() { "reply" } else { "refused" }));
                        if let Some(reply) = reply {
                            if randomised {
                                signed_once.insert(name.clone(), reply.clone());
                            }
                            ctx.time("messages", 1);
                            ctx.shape(&format!("d:{name}"));
                            if !matches!(role, Role::Redactor | Role::AnchorRedactor) && !tainted {
                                honest_replies.push(reply.clone());
                                labels.entry(reply.clone()).or_insert_with(|| format!("{name}{}", if stale { "(on a stale copy)" } else { "" }));
                                honest_roles.insert(name.clone());
                            }
                            let mut m = Msg { from: name.clone(), bytes: reply, corrupted: false, what: String::new() };
                            if faulty {
                                match ch.weighted("transport", &[70, 8, 8, 7, 7]) {
                                    0 => transit.push(m),
                                    1 => ctx.fault("msg_drop"),
                                    2 => {
                                        ctx.fault("msg_dup");
                                        transit.push(m.clone());
                                        transit.push(m);
                                    }
                                    3 => {
                                        ctx.fault("msg_corrupt");
                                        let i = ch.idx("flip.pos", m.bytes.len());
                                        m.bytes[i] ^= 1 << ch.below("flip.bit", 8);
                                        m.corrupted = true;
                                        transit.push(m);
                                    }
                                    _ => {
                                        ctx.fault("msg_truncate");
                                        let n = ch.idx("cut", m.bytes.len());
                                        m.bytes.truncate(n);
                                        m.corrupted = true;
                                        transit.push(m);
                                    }
                                }
                            } else {
                                transit.push(m);
                            }
                        }
                    }
                    // ---- deliver any message in transit (reordering), combine it with the current copy
                    1 => {
                        if transit.is_empty() {
                            return Ok(());
                        }
                        let i = if faulty { ch.idx("deliver", transit.len()) } else { 0 };
                        if i != 0 {
                            ctx.fault("msg_reorder");
                        }
                        let m = transit.remove(i);
                        ctx.op("deliver");
                        ctx.event(format!("deliver {}{}", m.from, if m.corrupted { " (corrupted)" } else { "" }));
                        let kind = if m.corrupted { "corrupted" } else { "well-formed" };
                        let parsed = catch(|| Pczt::parse(&m.bytes)).map_err(|e| Violation::new("no_panic", format!("Pczt::parse panicked on a {kind} message: {e}")))?;
                        let p = match parsed {
                            Err(e) => {
                                if !m.corrupted {
                                    return Err(Violation::new("serialised_pczt_parses", format!("an uncorrupted message from {} does not parse: {e:?}", m.from)));
                                }
                                ctx.shape("corrupt_rejected_at_parse");
                                return Ok(());
                            }
                            Ok(p) => p,
                        };
                        let mut p = p;
                        match catch(|| p.resolve_fields()).map_err(|e| Violation::new("no_panic", format!("resolve_fields panicked on a {kind} message: {e}")))? {
                            Ok(()) => {}
                            Err(e) => {
                                if !m.corrupted {
                                    return Err(Violation::new("compacted_fields_resolve", format!("resolve_fields failed on an uncorrupted message from {}: {e:?}", m.from)));
                                }
                                ctx.shape("corrupt_rejected_at_resolve");
                                return Ok(());
                            }
                        }
                        let cur = Pczt::parse(&current).unwrap();
                        let order = ch.chance("combine.order", 1, 2);
                        let c = catch(|| if order { Combiner::new(vec![p.clone(), cur.clone()]).combine() } else { Combiner::new(vec![cur.clone(), p.clone()]).combine() }).map_err(|e| Violation::new("no_panic", format!("Combiner panicked on a {kind} message: {e}")))?;
                        ctx.oracle("combine_monitor");
                        match c {
                            Err(e) => {
                                if !m.corrupted && !tainted {
                                    return Err(Violation::new("honest_copies_combine", format!("combining the coordinator's copy with an uncorrupted reply from {} failed: {e:?}", m.from)));
                                }
                                ctx.shape("combine_conflict");
                            }
                            Ok(c) => {
                                if m.corrupted {
                                    tainted = true;
                                    ctx.probe("corrupted_message_merged");
                                    // a copy that by itself describes a *different* transaction conflicts with ours
                                    if let Ok(tm) = txid_of(&p) {
                                        if tm != txid0 {
                                            let field = m.what.split(':').next().unwrap_or("").split('[').next().unwrap_or("").to_string();
                                            return Err(Violation::keyed("conflicting_copies_refused", format!("conflicting_copies_refused:{}", if field.is_empty() { "in_transit" } else { &field }), format!("a copy that implies txid {} ({}) was combined with the coordinator's copy (txid {}) without an error", hex::encode(&tm[..6]), if m.what.is_empty() { "damaged in transit" } else { &m.what }, hex::encode(&txid0[..6]))));
                                        }
                                    }
                                }
                                // whatever was merged, the result may never describe a different transaction
                                match txid_of(&c) {
                                    Ok(tc) if tc == txid0 => {}
                                    Ok(tc) => {
                                        return Err(Violation::new("txid_invariant", format!("after combining a {kind} message from {} the implied txid is {} (was {})", m.from, hex::encode(&tc[..6]), hex::encode(&txid0[..6]))));
                                    }
                                    Err(e) => {
                                        if !tainted {
                                            return Err(Violation::new("txid_derivable", format!("after combining: {e}")));
                                        }
                                    }
                                }
                                match ser(&c) {
                                    Ok(b) => {
                                        if !m.corrupted {
                                            delivered.insert(m.from.clone());
                                            ctx.shape(&format!("m:{}", m.from));
                                        }
                                        current = b.clone();
                                        history.push(b);
                                    }
                                    Err(v) => {
                                        if !tainted {
                                            return Err(v);
                                        }
                                    }
                                }
                            }
                        }
                    }
                    // ---- a faulty party: it returns the copy it holds with one field changed
                    3 => {
                        ctx.op("faulty_party_reply");
                        let cur = Pczt::parse(&current).unwrap();
                        let Ok(mut v) = to_value(&cur) else { return Ok(()) };
                        let Some(what) = mutate_field(&mut v, ch) else { return Ok(()) };
                        match catch(|| from_value(&v)).map_err(|m| Violation::new("no_panic", format!("parsing a copy with one changed field ({what}) panicked: {m}")))? {
                            Err(_) => ctx.shape("field_change_unrepresentable"),
                            Ok(p) => {
                                let bytes = ser(&p)?;
                                if bytes != current {
                                    ctx.fault("party_changes_field");
                                    ctx.event(format!("a faulty party changed {what}"));
                                    transit.push(Msg { from: "faulty".into(), bytes, corrupted: true, what });
                                }
                            }
                        }
                    }
                    // ---- a copy from before the IO Finaliser (or an Updater) ran arrives late
                    4 => {
                        if !t.earlier.is_empty() {
                            ctx.op("late_early_copy");
                            ctx.fault("msg_delay_stale");
                            let b = t.earlier[ch.idx("early.i", t.earlier.len())].clone();
                            transit.push(Msg { from: "earlier".into(), bytes: b, corrupted: false, what: String::new() });
                        }
                    }
                    // ---- somebody tries to finish early: extraction succeeds iff every contribution has arrived
                    _ => {
                        ctx.op("try_extract");
                        let r = t.try_extract(&current)?;
                        ctx.oracle("extraction_iff_complete");
                        let complete = t.required.iter().all(|n| delivered.contains(n));
                        match r {
                            Ok(tx) => {
                                if tx != txid0 {
                                    return Err(Violation::new("extracted_transaction_has_original_txid", format!("{} vs {}", hex::encode(&tx[..6]), hex::encode(&txid0[..6]))));
                                }
                                if !complete && !tainted {
                                    return Err(Violation::new("extraction_iff_complete", format!("extraction succeeded although only {:?} of {:?} have contributed", delivered, t.required)));
                                }
                                ctx.probe("extracted");
                                ctx.shape("x:ok");
                            }
                            Err(e) => {
                                if complete && !tainted {
                                    return Err(Violation::new("extraction_iff_complete", format!("every required contribution arrived but extraction failed: {e}")));
                                }
                                ctx.shape("x:no");
                            }
                        }
                    }
                }
                Ok(())
            })();
            ch.close();
            if let Err(v) = r {
                return ctx.report(v);
            }
        }

        // ---- combiner: independent of order, grouping and duplication over the honest replies
        if honest_replies.len() >= 2 {
            ctx.oracle("combine_order_grouping_duplication");
            let mut set: Vec<Vec<u8>> = vec![base.clone()];
            set.extend(honest_replies.iter().cloned());
            if !t.earlier.is_empty() && ch.chance("set.with_earlier", 1, 2) {
                // copies from before the IO Finaliser ran describe the same transaction too
                set.extend(t.earlier.iter().cloned());
                ctx.probe("combination_includes_pre_finalizer_copy");
            }
            set.sort();
            set.dedup();
            let parse_all = |v: &[Vec<u8>]| -> Vec<Pczt> { v.iter().map(|b| parse_resolved(b).unwrap()).collect() };
            let reference = match catch(|| Combiner::new(parse_all(&set)).combine()) {
                Ok(Ok(c)) => ser(&c)?,
                Ok(Err(e)) => {
                    // name the first pair that does not combine
                    let mut pair = String::new();
                    'outer: for i in 0..set.len() {
                        for j in i + 1..set.len() {
                            let (a, b) = (parse_resolved(&set[i]).unwrap(), parse_resolved(&set[j]).unwrap());
                            if let Ok(Err(_)) = catch(|| Combiner::new(vec![a, b]).combine()) {
                                pair = format!("; first conflicting pair: {} + {}", labels.get(&set[i]).cloned().unwrap_or_default(), labels.get(&set[j]).cloned().unwrap_or_default());
                                break 'outer;
                            }
                        }
                    }
                    return ctx.report(Violation::new("honest_copies_combine", format!("combining {} honest copies failed: {e:?}{pair}", set.len())));
                }
                Err(m) => return ctx.report(Violation::new("no_panic", format!("Combiner panicked: {m}"))),
            };
            if set.len() >= 2 {
                for trial in 0..4 {
                    let mut order = set.clone();
                    ch.shuffle("perm", &mut order);
                    if ch.chance("dup", 1, 2) {
                        let d = order[ch.idx("dup.i", order.len())].clone();
                        order.insert(ch.idx("dup.at", order.len() + 1), d);
                    }
                    // grouping: combine a prefix first, then the rest with the partial result
                    let cut = 1 + ch.idx("group.cut", order.len() - 1);
                    let r = catch(|| -> Result<Vec<u8>, String> {
                        let left = Combiner::new(parse_all(&order[..cut])).combine().map_err(|e| format!("{e:?}"))?;
                        let mut rest = vec![left];
                        rest.extend(parse_all(&order[cut..]));
                        if trial % 2 == 1 {
                            rest.reverse();
                        }
                        let c = Combiner::new(rest).combine().map_err(|e| format!("{e:?}"))?;
                        c.serialize().map_err(|e| format!("{e:?}"))
                    });
                    match r {
                        Err(m) => return ctx.report(Violation::new("no_panic", format!("Combiner panicked: {m}"))),
                        Ok(Err(e)) => return ctx.report(Violation::new("honest_copies_combine", format!("a permutation / grouping of the same honest copies failed to combine: {e}"))),
                        Ok(Ok(b)) => {
                            if b != reference {
                                return ctx.report(Violation::new("combine_order_grouping_duplication", format!("combining the same {} copies in another order / grouping (cut {cut}, with duplication) gives different bytes ({} vs {})", set.len(), b.len(), reference.len())));
                            }
                        }
                    }
                }
            }
            // idempotence
            let c2 = catch(|| -> Result<Vec<u8>, String> {
                let c = Combiner::new(vec![Pczt::parse(&reference).unwrap(), Pczt::parse(&reference).unwrap()]).combine().map_err(|e| format!("{e:?}"))?;
                c.serialize().map_err(|e| format!("{e:?}"))
            });
            match c2 {
                Ok(Ok(b)) if b == reference => {}
                Ok(Ok(b)) => return ctx.report(Violation::new("combine_idempotent", format!("combining a PCZT with itself changes it ({} vs {} bytes)", b.len(), reference.len()))),
                Ok(Err(e)) => return ctx.report(Violation::new("combine_idempotent", format!("combining a PCZT with itself fails: {e}"))),
                Err(m) => return ctx.report(Violation::new("no_panic", format!("Combiner panicked: {m}"))),
            }
            // every field any input carried is kept: each updater's entry is in the result, and after adding only the
            // contributions that no copy carried, the combination extracts (so every contribution a copy carried was kept)
            ctx.oracle("combine_keeps_every_field");
            for hb in &set {
                for tag in ["zsim.note.A", "zsim.note.B"] {
                    if contains(hb, tag.as_bytes()) && !contains(&reference, tag.as_bytes()) {
                        return ctx.report(Violation::new("combine_keeps_every_field", format!("proprietary entry {tag} carried by one copy is missing from the combination")));
                    }
                }
            }
            let full = match t.complete(&reference, &honest_roles, ctx) {
                Ok(b) => b,
                Err(v) => return ctx.report(v),
            };
            match t.try_extract(&full)? {
                Ok(tx) if tx == txid0 => ctx.probe("extracted"),
                Ok(tx) => return ctx.report(Violation::new("extracted_transaction_has_original_txid", format!("{} vs {}", hex::encode(&tx[..6]), hex::encode(&txid0[..6])))),
                Err(e) => return ctx.report(Violation::new("combine_keeps_every_field", format!("contributions of {honest_roles:?} were carried by the combined copies and the rest were added afterwards, yet extraction fails: {e}"))),
            }
        }
        // ---- Constructor-stage copies: while the transaction is still modifiable, a copy to which a Constructor has
        // added one more Sapling output combines with the earlier copy, in either order, to the later copy
        if t.sapling && !t.earlier.is_empty() {
            let made = (|| -> Option<(Pczt, Pczt)> {
                let creator = Pczt::parse(&t.earlier[0]).ok()?;
                let mut full = to_value(&creator).ok()?;
                // the repository's Creator hands out non-modifiable copies (its Builder has placed every output); a foreign
                // Constructor works on modifiable ones
                let flags = field_mut(&mut full, &["global", "tx_modifiable"])?;
                let f: i128 = match flags {
                    ciborium::Value::Integer(i) => (*i).into(),
                    _ => return None,
                };
                *flags = ciborium::Value::Integer(((f as u64) | 0x80).into());
                let mut partial = full.clone();
                let outs = field_mut(&mut partial, &["sapling", "outputs"])?;
                let ciborium::Value::Array(a) = outs else { return None };
                if a.len() < 2 {
                    return None;
                }
                let mut removed = a.pop()?;
                let v: i128 = match field_mut(&mut removed, &["value"])? {
                    ciborium::Value::Integer(i) => (*i).into(),
                    _ => return None,
                };
                let vs = field_mut(&mut partial, &["sapling", "value_sum"])?;
                let cur: i128 = match vs {
                    ciborium::Value::Integer(i) => (*i).into(),
                    _ => return None,
                };
                *vs = ciborium::Value::Integer(i64::try_from(cur + v).ok()?.into());
                Some((from_value(&partial).ok()?, from_value(&full).ok()?))
            })();
            if let Some((partial, full)) = made {
                ctx.oracle("constructor_stage_copies_combine");
                ctx.probe("constructor_stage_copies_combined");
                let want = ser(&full)?;
                for order in 0..2 {
                    let (x, y) = if order == 0 { (partial.clone(), full.clone()) } else { (full.clone(), partial.clone()) };
                    match catch(|| Combiner::new(vec![x, y]).combine()) {
                        Err(m) => return ctx.report(Violation::new("no_panic", format!("Combiner panicked: {m}"))),
                        Ok(Err(e)) => return ctx.report(Violation::new("honest_copies_combine", format!("a modifiable copy and the same copy with one more Sapling output do not combine (order {order}): {e:?}"))),
                        Ok(Ok(c)) => {
                            let got = ser(&c)?;
                            if got != want {
                                return ctx.report(Violation::new("combine_order_grouping_duplication", format!("combining a modifiable copy with the same copy carrying one more Sapling output (order {order}) does not give the later copy ({} vs {} bytes; implied txid {:?} vs {:?})", got.len(), want.len(), txid_of(&c).map(|t| hex::encode(&t[..6])), txid_of(&full).map(|t| hex::encode(&t[..6])))));
                            }
                        }
                    }
                }
            }
        }
        // ---- a copy that describes a different transaction must conflict
        if let Some(other) = &t.other_tx {
            ctx.oracle("conflicting_copies_refused");
            let which = if ch.chance("conflict.with_current", 1, 2) && !tainted { &current } else { &base };
            let cur = Pczt::parse(which).unwrap();
            let of = Pczt::parse(other).unwrap();
            let order = ch.chance("conflict.order", 1, 2);
            match catch(|| if order { Combiner::new(vec![cur, of]).combine() } else { Combiner::new(vec![of, cur]).combine() }) {
                Err(m) => return ctx.report(Violation::new("no_panic", format!("Combiner panicked: {m}"))),
                Ok(Ok(c)) => return ctx.report(Violation::new("conflicting_copies_refused", format!("two PCZTs that differ in an output value were combined (result implies txid {:?})", txid_of(&c).map(|t| hex::encode(&t[..6]))))),
                Ok(Err(_)) => {}
            }
        }
        // ---- final: request everything that is still missing over a clean transport, then extract
        if !tainted {
            let full = match t.complete(&current, &delivered, ctx) {
                Ok(b) => b,
                Err(v) => return ctx.report(v),
            };
            ctx.oracle("extraction_iff_complete");
            match t.try_extract(&full)? {
                Ok(tx) => {
                    if tx != txid0 {
                        return ctx.report(Violation::new("extracted_transaction_has_original_txid", format!("{} vs {}", hex::encode(&tx[..6]), hex::encode(&txid0[..6]))));
                    }
                    ctx.probe("extracted");
                }
                Err(e) => return ctx.report(Violation::new("extraction_iff_complete", format!("all contributions present but extraction failed: {e}"))),
            }
        }
        Ok(())
    }
}

impl Scenario for PcztSim {
    fn property(&self) -> &'static str {
        "C13"
    }
    fn name(&self) -> &'static str {
        "parties"
    }
    fn run(&self, ch: &mut Choices, ctx: &mut RunCtx) -> SimResult {
        match ch.weighted("pipeline", &[60, 20, 20]) {
            0 => {
                let v6 = ch.chance("v6", 1, 2);
                let n_in = 1 + ch.idx("n_in", 4);
                let n_out = 1 + ch.idx("n_out", 3);
                let values: Vec<u64> = (0..n_in).map(|_| 200_000 + ch.below("value", 5_000_000)).collect();
                let seed = ch.u64("build.seed");
                let mut lock = LockSpec::default();
                if ch.chance("lock.any", 1, 3) {
                    if ch.chance("lock.fallback", 1, 2) {
                        lock.fallback = Some(*ch.pick("lock.fallback.n", &[1u32, 1_999_000, 500_000_001]));
                    }
                    if ch.chance("lock.required", 1, 2) {
                        lock.required_height = Some((ch.idx("lock.input", n_in), *ch.pick("lock.height", &[1u32, 1_500_000, 1_999_999])));
                        ctx.probe("input_requires_height_lock");
                    }
                }
                ctx.config = json!({"pipeline": "transparent", "format": if v6 { "v6" } else { "v5" }, "inputs": n_in, "outputs": n_out, "lock": format!("{lock:?}")});
                ctx.shape(&format!("{}i{}o{}", if v6 { "v6" } else { "v5" }, n_in, n_out));
                ctx.probe("pipeline_transparent");
                let (fin, txid0, creator) = match catch(|| build_transparent(v6, n_in, n_out, &values, 0, seed, lock)) {
                    Err(m) => return ctx.report(Violation::new("no_panic", format!("building the transaction panicked: {m}"))),
                    Ok(Err(e)) => {
                        ctx.event(format!("build refused: {e}"));
                        return Ok(());
                    }
                    Ok(Ok(Err(v))) => return ctx.report(v),
                    Ok(Ok(Ok(b))) => b,
                };
                let base = check_encoding(ctx, &fin, "IoFinalizer")?;
                let mut roles: Vec<(String, Role)> = (0..n_in).map(|i| (format!("signerT{i}"), Role::SignT(i))).collect();
                let required = roles.iter().map(|(n, _)| n.clone()).collect();
                std_roles(&mut roles);
                let other_tx = if n_out > 1 {
                    match catch(|| build_transparent(v6, n_in, n_out, &values, 1, seed, lock)) {
                        Ok(Ok(Ok((p, _, _)))) => Some(ser(&p)?),
                        _ => None,
                    }
                } else {
                    None
                };
                let t = Template { name: "transparent", base, txid0, roles, required, sapling: false, t_keys: (0..n_in as u32).map(key).collect(), sapling_ask: None, orchard_ask: None, other_tx, earlier: vec![creator] };
                self.drive(&t, ch, ctx)
            }
            k => {
                let v6 = k == 2;
                match shielded(v6) {
                    Err(v) => ctx.report(v.clone()),
                    Ok(t) => {
                        ctx.config = json!({"pipeline": t.name});
                        ctx.shape(t.name);
                        ctx.probe(if v6 { "pipeline_v6_ironwood" } else { "pipeline_v5_sapling_orchard" });
                        self.drive(t, ch, ctx)
                    }
                }
            }
        }
    }
    fn runs(&self, tier: Tier) -> u64 {
        match tier {
            Tier::Quick => 5_000,
            Tier::Thorough => 300_000,
        }
    }
    fn budget_s(&self, tier: Tier) -> u64 {
        match tier {
            Tier::Quick => 120,
            Tier::Thorough => 1300,
        }
    }
    fn rule(&self) -> &'static str {
        "one run = one transaction built with build_for_pczt — transparent-only (v5 or v6 format, 1-4 inputs with distinct keys, 1-3 outputs, built afresh), or a v5 transaction with a transparent input, a Sapling spend and an Orchard spend, or a v6 transaction with a transparent input and an Ironwood spend (both built and proven once per process) — and processed by Creator, IO Finaliser, Updaters, one Signer per key, Provers, a Redactor, Combiner, Spend Finaliser and Extractor that exchange only serialized PCZTs over a transport that drops, duplicates, reorders, delays (stale copies), truncates and flips bits; non-trivial = a transport fault fired; distinct = distinct hash of (pipeline, dispatch/deliver sequence, fault kinds, outcomes)"
    }
    fn components(&self) -> serde_json::Value {
        json!({"pczt: parse/serialize (v1/v2), Creator, IoFinalizer, Updater, Signer (transparent, Sapling, Orchard, Ironwood), Prover (Sapling, Orchard, Ironwood), Redactor, Combiner, SpendFinalizer, TransactionExtractor; zcash_primitives Builder::build_for_pczt; zcash_pool_migration::pczt_txid; zcash_proofs bundled Sapling parameters; Orchard proving keys": "real",
               "transport between parties, party state": "simulator (bytes in transit under the choice stream)",
               "Prover parties": "real Prover role, run once per process over the pipeline's base copy; every later request to that party is answered with the same bytes"})
    }
    fn assumptions(&self) -> Vec<&'static str> {
        vec![
            "the shielded pipelines have one fixed shape each (proofs are too expensive to vary per run); only the transparent pipeline's shape is drawn per run",
            "after a corrupted message has been merged the run only requires that no different transaction (txid) can be produced or extracted",
            "P2SH / multisig inputs and the ZIP 374 deferred-anchor flow are not driven",
        ]
    }
    fn expected_probes(&self) -> Vec<&'static str> {
        vec!["v1_encoding_chosen", "v2_encoding_chosen", "extracted", "corrupted_message_merged", "pipeline_transparent", "pipeline_v5_sapling_orchard", "pipeline_v6_ironwood", "compacted_copy_resolved", "combination_includes_pre_finalizer_copy", "input_requires_height_lock", "constructor_stage_copies_combined"]
    }
    fn fault_kinds(&self) -> Vec<&'static str> {
        vec!["msg_drop", "msg_dup", "msg_reorder", "msg_corrupt", "msg_truncate", "msg_delay_stale", "party_changes_field"]
    }
    fn time_note(&self) -> &'static str {
        "simulated time = messages exchanged between parties"
    }
}

// ---------------------------------------------------------------- field-level seam

/// Field-level view of a PCZT through the public v2 serde type: `pczt::v2::Pczt` derives `Serialize` /
/// `Deserialize`, converts from `Pczt` and serialises to bytes `Pczt::parse` accepts. `ciborium::Value` is a
/// self-describing tree that can hold every key and value type the PCZT uses.
fn to_value(p: &Pczt) -> Result<ciborium::Value, String> {
    let v2 = pczt::v2::Pczt::try_from(p.clone()).map_err(|e| format!("{e:?}"))?;
    ciborium::Value::serialized(&v2).map_err(|e| e.to_string())
}
fn from_value(v: &ciborium::Value) -> Result<Pczt, String> {
    let v2: pczt::v2::Pczt = v.deserialized().map_err(|e| e.to_string())?;
    Pczt::parse(&v2.serialize()).map_err(|e| format!("{e:?}"))
}

fn field_mut<'a>(v: &'a mut ciborium::Value, path: &[&str]) -> Option<&'a mut ciborium::Value> {
    let mut cur = v;
    for k in path {
        let ciborium::Value::Map(m) = cur else { return None };
        let idx = m.iter().position(|(kk, _)| kk.as_text() == Some(*k))?;
        cur = &mut m[idx].1;
    }
    Some(cur)
}

/// Sets `transparent.inputs[i].<key>` (None if the shape is not what is expected).
fn set_input_field(v: &mut ciborium::Value, i: usize, key: &str, val: ciborium::Value) -> Option<()> {
    let inputs = field_mut(v, &["transparent", "inputs"])?;
    let ciborium::Value::Array(a) = inputs else { return None };
    let inp = a.get_mut(i)?;
    *field_mut(inp, &[key])? = val;
    Some(())
}

const NUMERIC_OPTIONALS: [&str; 4] = ["fallback_lock_time", "required_height_lock_time", "required_time_lock_time", "sequence"];

/// Paths (child indices) to every map entry whose value is not itself a non-empty map.
fn collect_fields(v: &ciborium::Value, path: &mut Vec<usize>, out: &mut Vec<(Vec<usize>, String)>, key: &str) {
    match v {
        ciborium::Value::Map(m) if !m.is_empty() => {
            for (i, (k, val)) in m.iter().enumerate() {
                path.push(i);
                let name = k.as_text().map(|s| s.to_string()).unwrap_or_else(|| format!("{key}[key]"));
                collect_fields(val, path, out, &name);
                path.pop();
            }
        }
        ciborium::Value::Array(a) if a.iter().any(|x| matches!(x, ciborium::Value::Map(_) | ciborium::Value::Array(_))) => {
            for (i, val) in a.iter().enumerate() {
                path.push(i);
                collect_fields(val, path, out, key);
                path.pop();
            }
        }
        _ => out.push((path.clone(), key.to_string())),
    }
}

fn at_path<'a>(v: &'a mut ciborium::Value, path: &[usize]) -> &'a mut ciborium::Value {
    let mut cur = v;
    for i in path {
        cur = match cur {
            ciborium::Value::Map(m) => &mut m[*i].1,
            ciborium::Value::Array(a) => &mut a[*i],
            _ => unreachable!(),
        };
    }
    cur
}

/// One field of the copy is changed (a buggy or hostile party, or corruption that survives parsing).
/// Returns a description, or None when the drawn field cannot be changed meaningfully.
fn mutate_field(v: &mut ciborium::Value, ch: &mut Choices) -> Option<String> {
    // half of the time a field drawn uniformly from all fields, otherwise by descending the tree with a uniform
    // choice at every level (which favours the few header fields over the many per-action and proof fields)
    let (path, name) = if ch.chance("mut.uniform", 1, 2) {
        let mut fields = vec![];
        collect_fields(v, &mut vec![], &mut fields, "");
        if fields.is_empty() {
            return None;
        }
        fields[ch.idx("mut.field", fields.len())].clone()
    } else {
        let mut path = vec![];
        let mut name = String::new();
        let mut cur: &ciborium::Value = v;
        loop {
            match cur {
                ciborium::Value::Map(m) if !m.is_empty() => {
                    let i = ch.idx("mut.child", m.len());
                    name = m[i].0.as_text().map(|s| s.to_string()).unwrap_or_else(|| format!("{name}[key]"));
                    path.push(i);
                    cur = &m[i].1;
                }
                ciborium::Value::Array(a) if a.iter().any(|x| matches!(x, ciborium::Value::Map(_) | ciborium::Value::Array(_))) => {
                    let i = ch.idx("mut.child", a.len());
                    path.push(i);
                    cur = &a[i];
                }
                _ => break,
            }
        }
        (path, name)
    };
    let drop_it = ch.chance("mut.drop", 1, 4);
    let slot = at_path(v, &path);
    use ciborium::Value as V;
    match slot {
        V::Null => {
            if NUMERIC_OPTIONALS.contains(&name.as_str()) {
                let n = *ch.pick("mut.n", &[0u64, 1, 5, 499_999_999, 500_000_000, 0xffff_fffe]);
                *slot = V::Integer(n.into());
                Some(format!("{name}: absent -> {n}"))
            } else {
                None
            }
        }
        _ if drop_it => {
            *slot = V::Null;
            Some(format!("{name}: dropped"))
        }
        V::Integer(i) => {
            let x: i128 = (*i).into();
            let y = if x == 0 { 1 } else if ch.chance("mut.dec", 1, 2) { x - 1 } else { x + 1 };
            *slot = V::Integer((y as u64).into());
            Some(format!("{name}: {x} -> {y}"))
        }
        V::Bool(b) => {
            *b = !*b;
            Some(format!("{name}: flipped"))
        }
        V::Array(a) if !a.is_empty() => {
            let i = ch.idx("mut.elem", a.len());
            if let V::Integer(e) = &mut a[i] {
                let x: i128 = (*e).into();
                *e = ((x as u64) ^ 1).into();
                Some(format!("{name}[{i}]: bit flipped"))
            } else {
                None
            }
        }
        V::Bytes(b) if !b.is_empty() => {
            let i = ch.idx("mut.elem", b.len());
            b[i] ^= 1;
            Some(format!("{name}[{i}]: bit flipped"))
        }
        _ => None,
    }
}
