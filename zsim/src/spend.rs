//! C08 — proposals spend only spendable funds, each once, and balance exactly. Several spend flows
//! (each with its own lock owner) run against one wallet: propose (with or without a lock request),
//! create + store (mock Sapling provers), abandon, lock clearing, while the simulated chain clock
//! advances so that locks and pending transactions expire; a second flow may run a whole proposal
//! on another connection from inside the first flow's select->lock window.

use std::collections::{BTreeMap, BTreeSet};
use std::sync::atomic::{AtomicU64, Ordering};
use std::sync::Arc;

use rand_chacha::ChaChaRng;
use rusqlite::Connection;
use serde_json::json;
use zcash_client_backend::data_api::locking::{LockOwner, LockRequest, LockedInputPolicy, OutputLockStore};
use zcash_client_backend::data_api::wallet::input_selection::{GreedyInputSelector, SpendPolicy};
use zcash_client_backend::data_api::wallet::{create_proposed_transactions, propose_transfer, ConfirmationsPolicy, SpendingKeys};
use zcash_client_backend::data_api::WalletRead;
use zcash_client_backend::fees::standard::SingleOutputChangeStrategy;
use zcash_client_backend::fees::{DustOutputPolicy, StandardFeeRule};
use zcash_client_backend::proposal::Proposal;
use zcash_client_backend::wallet::{Note, OvkPolicy};
use zcash_client_sqlite::{ReceivedNoteId, WalletDb};
use zcash_keys::address::Address;
use zcash_protocol::consensus::BlockHeight;
use zcash_protocol::value::Zatoshis;
use zcash_protocol::{PoolType, ShieldedPool};

use crate::choices::Choices;
use crate::runner::catch;
use crate::sim::{RunCtx, Scenario, SimResult, Tier, Violation};
use crate::simchain::*;
use crate::wallet::*;

/// What a proposal input is keyed by: pool (shielded pool or transparent), creating txid, output index.
#[derive(Clone, Copy, Debug, PartialEq, Eq, PartialOrd, Ord)]
enum PoolK {
    Sapling,
    Orchard,
    Ironwood,
    Transparent,
}
impl PoolK {
    fn name(&self) -> &'static str {
        match self {
            PoolK::Sapling => "sapling",
            PoolK::Orchard => "orchard",
            PoolK::Ironwood => "ironwood",
            PoolK::Transparent => "transparent",
        }
    }
}
impl From<Pool> for PoolK {
    fn from(p: Pool) -> Self {
        match p {
            Pool::Sapling => PoolK::Sapling,
            Pool::Orchard => PoolK::Orchard,
            Pool::Ironwood => PoolK::Ironwood,
        }
    }
}
type NoteKey = (PoolK, [u8; 32], usize);
type Prop = Proposal<StandardFeeRule, ReceivedNoteId>;

struct Live {
    owner: LockOwner,
    acct: usize,
    inputs: BTreeSet<NoteKey>,
    /// the flow asked for a lock (the per-note lock table below is authoritative)
    lock_expiry: Option<u32>,
    /// stored pending transaction: (txid, expiry height)
    stored: Option<([u8; 32], u32)>,
    proposal: Prop,
    target: u32,
    tag: u8,
}

fn pool_of(n: &Note) -> PoolK {
    match n {
        Note::Sapling(_) => PoolK::Sapling,
        Note::Orchard { pool, .. } => match pool {
            orchard::ValuePool::Ironwood => PoolK::Ironwood,
            _ => PoolK::Orchard,
        },
    }
}

fn inputs_of(p: &Prop) -> Vec<(NoteKey, u64, Option<u32>, Option<u32>)> {
    let mut v = vec![];
    for step in p.steps().iter() {
        if let Some(si) = step.shielded_inputs() {
            for n in si.notes().iter() {
                let mut t = [0u8; 32];
                t.copy_from_slice(n.txid().as_ref());
                v.push(((pool_of(n.note()), t, n.output_index() as usize), n.note().value().into_u64(), n.mined_height().map(u32::from), step.anchor_height().map(u32::from)));
            }
        }
        for u in step.transparent_inputs().iter() {
            let mut t = [0u8; 32];
            t.copy_from_slice(u.outpoint().hash());
            v.push(((PoolK::Transparent, t, u.outpoint().n() as usize), u64::from(u.txout().value()), u.mined_height().map(u32::from), None));
        }
    }
    v
}

struct Ctl {
    policy: ConfirmationsPolicy,
    min_conf: u32,
}

#[allow(clippy::too_many_arguments)]
fn do_propose(conn: &mut Connection, rng: &mut ChaChaRng, s_net: zcash_protocol::local_consensus::LocalNetwork, clock: SimClock, acct: zcash_client_sqlite::AccountUuid, to: &Address, amount: u64, policy: ConfirmationsPolicy, spend: &SpendPolicy, lock: Option<LockRequest>, selector_lip: Option<LockedInputPolicy>) -> Result<Prop, String> {
    let mut d = WalletDb::from_connection(conn, s_net, clock, rng);
    let mut sel = GreedyInputSelector::<WalletDb<&mut Connection, zcash_protocol::local_consensus::LocalNetwork, SimClock, &mut ChaChaRng>>::new();
    // one selector shared between shielding and transfers: its own locked-input policy is documented to govern
    // shielding only, transfers follow the SpendPolicy's
    if let Some(p) = selector_lip {
        sel = sel.with_locked_input_policy(p);
    }
    let change = SingleOutputChangeStrategy::<WalletDb<&mut Connection, zcash_protocol::local_consensus::LocalNetwork, SimClock, &mut ChaChaRng>>::new(StandardFeeRule::Zip317, None, ShieldedPool::Sapling, DustOutputPolicy::default());
    let req = zcash_client_backend::zip321::TransactionRequest::new(vec![zcash_client_backend::zip321::Payment::new(to.to_zcash_address(&s_net), Some(Zatoshis::from_u64(amount).map_err(|_| "amount")?), None, None, None, vec![]).map_err(|e| format!("{e:?}"))?]).map_err(|e| format!("{e:?}"))?;
    propose_transfer::<_, _, _, _, zcash_client_sqlite::wallet::commitment_tree::Error>(&mut d, &s_net, acct, &sel, &change, req, policy, spend, lock, None).map_err(|e| format!("{e}"))
}

pub struct Spend;

impl Scenario for Spend {
    fn property(&self) -> &'static str {
        "C08"
    }
    fn name(&self) -> &'static str {
        "spend"
    }
    fn prepare(&self) {
        let _ = template_db();
    }
    fn run(&self, ch: &mut Choices, ctx: &mut RunCtx) -> SimResult {
        let mut cfg = draw_cfg(ch, false);
        cfg.tx_density = 85;
        cfg.own_pct = 90;
        cfg.spend_pct = 8;
        cfg.retention = None;
        cfg.base_sizes = [ch.below("base.s", 40), ch.below("base.o", 40), if cfg.nu6_3 == Some(1) { ch.below("base.i", 40) } else { 0 }];
        let sapling_only = ch.chance("sapling_only", 3, 5);
        if sapling_only {
            cfg.own_pools = vec![Pool::Sapling];
        }
        ctx.config = cfg_json(&cfg);
        ctx.shape(&format!("a{}s{}w{}", cfg.n_accounts, sapling_only, cfg.wal));
        let seed = ch.u64("chain.seed");
        let mut s = WalletSim::new(cfg, seed, ctx)?;
        let n0 = 25 + ch.below("init.blocks", 50);
        {
            let mut r = ch.fork_rng("init.chain");
            for _ in 0..n0 {
                s.gen_block(&mut r, ctx);
            }
        }
        match s.sync_to_completion(ch, ctx, false) {
            Ok(true) => {}
            _ => return Ok(()),
        }
        // transparent coins the client reported, in scanned blocks (several accounts hold some, at their own addresses)
        if ch.chance("coins", 2, 3) {
            let base = s.cfg.base_height;
            let tip = s.chain.tip();
            let n = 1 + ch.below("coins.n", 5);
            for _ in 0..n {
                let a = ch.idx("coins.acct", s.accounts.len());
                let h = base + 1 + ch.below("coins.h", (tip - base) as u64) as u32;
                let value = *ch.pick("coins.value", &[300_000u64, 2_000_000, 40_000_000, 15_000]);
                let _ = s.put_utxo(Err((a, value, h, ch.u64("coins.salt"))), ctx)?;
            }
            if !s.t_coins.is_empty() {
                ctx.probe("wallet_holds_transparent_coins");
            }
        }
        // recipients: a foreign Sapling address
        let to = {
            let esk = sapling::zip32::ExtendedSpendingKey::master(&[9u8; 32]);
            Address::Sapling(esk.to_diversifiable_full_viewing_key().default_address().1)
        };
        let ctl = if ch.chance("policy.min", 1, 2) { Ctl { policy: ConfirmationsPolicy::MIN, min_conf: 1 } } else { Ctl { policy: ConfirmationsPolicy::default(), min_conf: 3 } };
        let mut live: Vec<Live> = vec![];
        // per-note advisory locks as the model knows them: note -> (owner, lock_expiry_height, account)
        let mut locks: BTreeMap<NoteKey, (LockOwner, u32, usize)> = BTreeMap::new();
        let owners: Vec<LockOwner> = (0..3u8).map(|i| LockOwner::new([i + 1; 32])).collect();
        let n_ops = 6 + ch.below("n_ops", 22);
        let mut conn2 = open_conn(&s.path, s.cfg.wal);

        for _ in 0..n_ops {
            if !ch.more() {
                break;
            }
            ch.open("op");
            let tip = s.chain.tip();
            let target = tip + 1;
            let k = ch.weighted("op", &[40, 14, 12, 22, 5, 7]);
            match k {
                // ---- propose (maybe racing with a second flow inside the select->lock window)
                0 | 5 => {
                    let race = k == 5;
                    ctx.op(if race { "propose_race" } else { "propose" });
                    let f = ch.idx("flow", owners.len());
                    let a = ch.idx("acct", s.accounts.len());
                    let lock = if ch.chance("lock", 3, 4) { Some(1 + ch.below("lock.blocks", 30) as u32) } else { None };
                    let amount = match ch.below("amount.kind", 5) {
                        0 => 10_000 + ch.below("amount.small", 200_000),
                        1 => 1_000_000 + ch.below("amount.mid", 20_000_000),
                        2 => 50_000_000 + ch.below("amount.big", 400_000_000),
                        3 => 5_000_000_000,
                        _ => 100_000 + ch.below("amount", 5_000_000),
                    };
                    let pools: Vec<ShieldedPool> = if ch.chance("pools.all", 2, 3) { vec![ShieldedPool::Sapling, ShieldedPool::Orchard, ShieldedPool::Ironwood] } else { vec![ShieldedPool::Sapling] };
                    let lip = match ch.below("lip", 4) {
                        0 => {
                            let o = owners[ch.idx("lip.owner", owners.len())];
                            Some((LockedInputPolicy::PreferUnlocked(zcash_client_backend::data_api::wallet::input_selection::NonEmptyBTreeSet::singleton(o)), o))
                        }
                        _ => None,
                    };
                    let mut spend = SpendPolicy::shielded_pools(pools.clone());
                    if let Some((p, _)) = &lip {
                        spend = spend.with_locked_input_policy(p.clone());
                    }
                    // transparent coins: any address of the account, or an explicit allow-list that may (wrongly) name
                    // an address of another account of the same wallet
                    if !s.t_coins.is_empty() && ch.chance("transparent", 1, 2) {
                        use zcash_client_backend::data_api::wallet::input_selection::TransparentSpendPolicy;
                        use transparent::keys::IncomingViewingKey;
                        let tp = if ch.chance("transparent.allow_list", 1, 2) {
                            let whose = if s.accounts.len() > 1 && ch.chance("transparent.foreign_addr", 1, 2) { (a + 1 + ch.idx("transparent.other", s.accounts.len() - 1)) % s.accounts.len() } else { a };
                            if whose != a {
                                ctx.probe("allow_list_names_another_accounts_address");
                            }
                            let addr = acct_keys(&s.net, whose as u32).ufvk.transparent().unwrap().derive_external_ivk().unwrap().default_address().0;
                            TransparentSpendPolicy::from_one_address(addr)
                        } else {
                            TransparentSpendPolicy::any_account_addr()
                        };
                        spend = spend.with_transparent(tp);
                        ctx.probe("transfer_may_spend_transparent");
                    }
                    let selector_lip = if ch.chance("selector.lip", 1, 4) {
                        let o = owners[ch.idx("selector.lip.owner", owners.len())];
                        let set = zcash_client_backend::data_api::wallet::input_selection::NonEmptyBTreeSet::singleton(o);
                        Some(if ch.chance("selector.lip.prefer_locked", 1, 2) { LockedInputPolicy::PreferLocked(set) } else { LockedInputPolicy::PreferUnlocked(set) })
                    } else {
                        None
                    };
                    // flow B inside A's window
                    let race_at = if race { Some(1 + ch.below("race.step", 3000)) } else { None };
                    let mut race_result: Option<Result<Prop, String>> = None;
                    let owner_b = owners[(f + 1) % owners.len()];
                    let amount_b = 100_000 + ch.below("amount.b", 30_000_000);
                    let lock_b = 1 + ch.below("lock.b", 20) as u32;
                    let res = {
                        let acct_id = s.accounts[a];
                        let (net, clock) = (s.net, s.clock.clone());
                        let counter = Arc::new(AtomicU64::new(0));
                        let slot: Arc<std::sync::Mutex<Option<Result<Prop, String>>>> = Arc::new(std::sync::Mutex::new(None));
                        if let Some(at) = race_at {
                            let c = counter.clone();
                            let slot2 = slot.clone();
                            let c2p = SendConn(&mut conn2 as *mut Connection);
                            let to2 = to.clone();
                            let clock2 = clock.clone();
                            let policy = ctl.policy;
                            let seedb = ch.u64("race.rng");
                            s.conn.progress_handler(1, Some(move || {
                                if c.fetch_add(1, Ordering::Relaxed) + 1 == at {
                                    let conn2: &mut Connection = unsafe { &mut *c2p.get() };
                                    use rand_core::SeedableRng;
                                    let mut rngb = ChaChaRng::seed_from_u64(seedb);
                                    let r = catch(|| do_propose(conn2, &mut rngb, net, clock2.clone(), acct_id, &to2, amount_b, policy, &SpendPolicy::default(), Some(LockRequest::new(owner_b, lock_b)), None));
                                    *slot2.lock().unwrap() = Some(r.unwrap_or_else(|m| Err(format!("PANIC {m}"))));
                                }
                                false
                            }));
                        }
                        let r = catch(|| do_propose(&mut s.conn, &mut s.rng, net, clock, acct_id, &to, amount, ctl.policy, &spend, lock.map(|n| LockRequest::new(owners[f], n)), selector_lip.clone()));
                        if race_at.is_some() {
                            s.conn.progress_handler(1, None::<fn() -> bool>);
                            race_result = slot.lock().unwrap().take();
                        }
                        r
                    };
                    let res = match res {
                        Ok(r) => r,
                        Err(m) => {
                            ch.close();
                            return ctx.report(Violation::keyed("no_panic", format!("panic:{}", crate::runner::panic_site(&m)), format!("propose_transfer panicked: {m}")));
                        }
                    };
                    // B first (it committed inside A's window). A's selection is judged against the state before B:
                    // the two are concurrent, and an overlap is resolved (or not) at lock acquisition, which the
                    // disjointness invariant below checks.
                    let n_before_b = live.len();
                    let locks_before_b = locks.clone();
                    if let Some(rb) = race_result {
                        ctx.sched("flow_b_inside_select_lock_window");
                        match rb {
                            Ok(pb) => {
                                ctx.probe("race_b_succeeded");
                                ctx.fault("flow_interleaved@vm_step");
                                self.check_proposal(&s, ctx, &pb, a, owner_b, None, &live, &locks, &ctl, target, true)?;
                                let inputs: BTreeSet<NoteKey> = inputs_of(&pb).into_iter().map(|x| x.0).collect();
                                for k in &inputs {
                                    locks.insert(*k, (owner_b, target + lock_b, a));
                                }
                                live.push(Live { owner: owner_b, acct: a, inputs, lock_expiry: Some(target + lock_b), stored: None, proposal: pb, target, tag: ((f + 1) % owners.len()) as u8 });
                            }
                            Err(e) => {
                                if e.starts_with("PANIC") {
                                    ch.close();
                                    return ctx.report(Violation::new("no_panic", format!("flow B: {e}")));
                                }
                                ctx.shape("race_b_err");
                                if e.contains("locked") || e.contains("busy") || e.contains("Locked") {
                                    ctx.probe("busy_seen");
                                    ctx.fault("interleaved_flow_refused_busy");
                                }
                            }
                        }
                    }
                    match res {
                        Ok(p) => {
                            ctx.shape("propose_ok");
                            let admitted = lip.as_ref().map(|x| x.1);
                            let locks_for_a = if n_before_b == live.len() { locks.clone() } else { locks_before_b.clone() };
                            self.check_proposal(&s, ctx, &p, a, owners[f], admitted, &live[..n_before_b], &locks_for_a, &ctl, target, lock.is_some())?;
                            let inputs: BTreeSet<NoteKey> = inputs_of(&p).into_iter().map(|x| x.0).collect();
                            if let Some(n) = lock {
                                for k in &inputs {
                                    // both flows locked: acquisition must have refused an active foreign lock
                                    if let Some((o, e, _)) = locks.get(k) {
                                        if *o != owners[f] && *e >= target {
                                            ch.close();
                                            return ctx.report(Violation::new("lock_acquisition_refuses_active_foreign_lock", format!("{} note {}:{} was locked by another owner until {e} and has been locked again by a concurrent flow (target {target})", k.0.name(), hex::encode(&k.1[..4]), k.2)));
                                        }
                                    }
                                    locks.insert(*k, (owners[f], target + n, a));
                                }
                            }
                            ctx.event(format!("flow {f} account {a}: proposal for {amount} with {} inputs, lock {:?}", inputs.len(), lock));
                            if lock.is_some() || ch.chance("keep_unlocked", 1, 2) {
                                live.push(Live { owner: owners[f], acct: a, inputs, lock_expiry: lock.map(|n| target + n), stored: None, proposal: p, target, tag: f as u8 });
                            }
                        }
                        Err(e) => {
                            ctx.shape("propose_err");
                            ctx.event(format!("flow {f} account {a}: proposal for {amount} refused: {e}"));
                            if e.contains("InputsLocked") || e.to_lowercase().contains("locked") {
                                ctx.probe("lock_race_lost");
                            }
                        }
                    }
                    // a request the spendable funds cannot cover must be refused: checked inside check_proposal
                }
                // ---- create + store a pending transaction (Sapling-only wallets: mock provers)
                1 => {
                    let cands: Vec<usize> = live.iter().enumerate().filter(|(_, l)| l.stored.is_none() && l.target == target && l.inputs.iter().all(|k| k.0 == PoolK::Sapling)).map(|(i, _)| i).collect();
                    if sapling_only && !cands.is_empty() {
                        ctx.op("create_and_store");
                        let i = cands[ch.idx("which", cands.len())];
                        let a = live[i].acct;
                        let usk = acct_keys(&s.net, a as u32).usk.clone();
                        // expiry height 0 disables expiry: such a pending transaction never stops spending its inputs
                        let expiry_delta = *ch.pick("expiry", &[40u32, 2, 5, 0]);
                        let (exp_arg, exp) = if expiry_delta == 0 { (0, u32::MAX) } else { (target + expiry_delta, target + expiry_delta) };
                        if expiry_delta == 0 {
                            ctx.probe("pending_tx_without_expiry");
                        }
                        let r = {
                            let net = s.net;
                            let mut d = db!(s);
                            catch(|| {
                                create_proposed_transactions::<_, _, std::convert::Infallible, _, std::convert::Infallible, _>(
                                    &mut d,
                                    &net,
                                    &sapling::prover::mock::MockSpendProver,
                                    &sapling::prover::mock::MockOutputProver,
                                    &SpendingKeys::from_unified_spending_key(usk),
                                    OvkPolicy::Sender,
                                    &live[i].proposal,
                                    Some(BlockHeight::from_u32(exp_arg)),
                                )
                                .map_err(|e| format!("{e}"))
                            })
                        };
                        match r {
                            Err(m) => {
                                ch.close();
                                return ctx.report(Violation::keyed("no_panic", format!("panic:{}", crate::runner::panic_site(&m)), format!("create_proposed_transactions panicked: {m}")));
                            }
                            Ok(Err(e)) => {
                                ctx.event(format!("create failed: {e}"));
                                ctx.shape("create_err");
                            }
                            Ok(Ok(txids)) => {
                                let mut t = [0u8; 32];
                                t.copy_from_slice(txids.first().as_ref());
                                live[i].stored = Some((t, exp));
                                live[i].lock_expiry = None;
                                // unlock-on-store: the outputs recorded as spent are unlocked, whoever held the lock
                                for k in live[i].inputs.clone() {
                                    locks.remove(&k);
                                }
                                ctx.probe("pending_tx_stored");
                                ctx.event(format!("stored pending tx expiring at {exp} spending {} notes", live[i].inputs.len()));
                            }
                        }
                    }
                }
                // ---- abandon a proposal: release its locks
                2 => {
                    let cands: Vec<usize> = live.iter().enumerate().filter(|(_, l)| l.stored.is_none() && l.lock_expiry.is_some()).map(|(i, _)| i).collect();
                    if !cands.is_empty() {
                        ctx.op("abandon");
                        let i = cands[ch.idx("which", cands.len())];
                        let l = live.remove(i);
                        let r = {
                            let mut d = db!(s);
                            zcash_client_backend::data_api::locking::unlock_proposal_inputs(&mut d, &l.proposal, l.owner).map_err(|e| e.to_string())
                        };
                        if let Err(e) = r {
                            ch.close();
                            return ctx.report(Violation::new("unlock_succeeds", e));
                        }
                        for k in &l.inputs {
                            if locks.get(k).map(|x| x.0 == l.owner).unwrap_or(false) {
                                locks.remove(k);
                            }
                        }
                        ctx.event(format!("abandoned a proposal of {} inputs", l.inputs.len()));
                    }
                }
                // ---- the chain moves on: locks and pending transactions expire; stored transactions may be mined
                3 => {
                    ctx.op("advance_chain");
                    let n = 1 + ch.below("blocks", 14);
                    let mut r = ch.fork_rng("blocks");
                    let saved = (s.cfg.tx_density, s.cfg.spend_pct);
                    s.cfg.tx_density = 40;
                    s.cfg.spend_pct = 0; // the simulated chain does not spend wallet notes behind the flows' back here
                    for _ in 0..n {
                        s.gen_block(&mut r, ctx);
                    }
                    s.cfg.tx_density = saved.0;
                    s.cfg.spend_pct = saved.1;
                    match s.sync_to_completion(ch, ctx, false) {
                        Ok(true) => {}
                        _ => {
                            ch.close();
                            return Ok(());
                        }
                    }
                    let new_target = s.chain.tip() + 1;
                    for l in &live {
                        if l.lock_expiry.map(|e| e < new_target).unwrap_or(false) {
                            ctx.probe("lock_expired");
                        }
                        if l.stored.map(|(_, e)| e < new_target).unwrap_or(false) {
                            ctx.probe("pending_tx_expired");
                        }
                    }
                    // drop what can no longer protect anything
                    live.retain(|l| l.lock_expiry.map(|e| e >= new_target).unwrap_or(false) || l.stored.map(|(_, e)| e >= new_target).unwrap_or(false));
                    locks.retain(|_, v| v.1 >= new_target);
                    ctx.event(format!("chain advanced by {n} to {}", s.chain.tip()));
                }
                // ---- owner-agnostic clearing
                4 => {
                    ctx.op("clear_locks");
                    let a = ch.idx("acct", s.accounts.len());
                    let acct_id = s.accounts[a];
                    let r = {
                        let mut d = db!(s);
                        d.clear_locked_outputs(acct_id).map_err(|e| e.to_string())
                    };
                    if let Err(e) = r {
                        ch.close();
                        return ctx.report(Violation::new("clear_locks_succeeds", e));
                    }
                    for l in live.iter_mut().filter(|l| l.acct == a) {
                        l.lock_expiry = None;
                    }
                    locks.retain(|_, v| v.2 != a);
                    live.retain(|l| l.lock_expiry.is_some() || l.stored.is_some());
                }
                _ => unreachable!(),
            }
            ch.close();
            // ---- cross-flow invariants
            let tgt = s.chain.tip() + 1;
            // the wallet's locked set equals the model's
            for (a, acct_id) in s.accounts.clone().iter().enumerate() {
                let got = {
                    let d = db!(s);
                    d.get_locked_outputs(*acct_id).map_err(|e| e.to_string())
                };
                let Ok(got) = got else { continue };
                ctx.oracle("locked_outputs_match_model");
                let got: BTreeSet<(String, [u8; 32], u32)> = got
                    .iter()
                    .map(|o| {
                        let mut t = [0u8; 32];
                        t.copy_from_slice(o.txid().as_ref());
                        (format!("{:?}", o.pool()), t, o.output_index())
                    })
                    .collect();
                let mut want: BTreeSet<(String, [u8; 32], u32)> = BTreeSet::new();
                for (k, v) in locks.iter().filter(|(_, v)| v.2 == a && v.1 >= tgt) {
                    let pt = match k.0 {
                        PoolK::Sapling => PoolType::Shielded(ShieldedPool::Sapling),
                        PoolK::Orchard => PoolType::Shielded(ShieldedPool::Orchard),
                        PoolK::Ironwood => PoolType::Shielded(ShieldedPool::Ironwood),
                        PoolK::Transparent => PoolType::Transparent,
                    };
                    let _ = v;
                    want.insert((format!("{pt:?}"), k.1, k.2 as u32));
                }
                if got != want {
                    let only_w: Vec<_> = got.difference(&want).take(2).map(|x| format!("{} {}:{}", x.0, hex::encode(&x.1[..4]), x.2)).collect();
                    let only_m: Vec<_> = want.difference(&got).take(2).map(|x| format!("{} {}:{}", x.0, hex::encode(&x.1[..4]), x.2)).collect();
                    return ctx.report(Violation::new("locked_outputs_match_model", format!("account {a} at target {tgt}: wallet reports {} locked outputs, model {}; only in wallet {:?}; only in model {:?}", got.len(), want.len(), only_w, only_m)));
                }
            }
        }
        drop(conn2);
        Ok(())
    }
    fn runs(&self, tier: Tier) -> u64 {
        match tier {
            Tier::Quick => 1200,
            Tier::Thorough => 20_000,
        }
    }
    fn budget_s(&self, tier: Tier) -> u64 {
        match tier {
            Tier::Quick => 130,
            Tier::Thorough => 1500,
        }
    }
    fn rule(&self) -> &'static str {
        "one run = one synced wallet (1-3 accounts, notes in up to three pools) and 6-28 steps of up to three spend flows with distinct lock owners: propose with/without a lock request and with owner-scoped lock overrides, a second flow's whole proposal run on another connection from inside the first flow's progress handler, create+store with mock Sapling provers and short/long expiries, abandon, lock clearing, chain advance with re-sync (lock and pending-transaction expiry); non-trivial = a race was scheduled, a lock / pending transaction expired, or a refusal occurred; distinct = distinct hash of (configuration class, operation kinds, outcomes, probes)"
    }
    fn components(&self) -> serde_json::Value {
        json!({"propose_transfer, GreedyInputSelector, SingleOutputChangeStrategy, lock acquisition/release, create_proposed_transactions, store_transactions_to_be_sent on SQLite": "real",
               "Sapling proving": "mock provers (sapling-crypto's test provers)",
               "Orchard / Ironwood proving": "not run (flows over those pools stop at the locked proposal)",
               "chain clock": "simulator (SimChain heights)"})
    }
    fn assumptions(&self) -> Vec<&'static str> {
        vec![
            "the spendability model is the generator's ground truth for scanned notes plus the model's own record of locks and stored pending transactions",
            "transparent coins are not yet part of the spend flows",
            "the uncoverable-request clause is checked conservatively: a proposal whose payment exceeds the total value of eligible notes is a violation",
        ]
    }
    fn expected_probes(&self) -> Vec<&'static str> {
        vec!["lock_race_lost", "lock_expired", "pending_tx_stored", "pending_tx_expired", "race_b_succeeded", "pending_tx_without_expiry", "wallet_holds_transparent_coins", "transparent_input_selected", "allow_list_names_another_accounts_address"]
    }
    fn fault_kinds(&self) -> Vec<&'static str> {
        vec!["flow_interleaved@vm_step", "interleaved_flow_refused_busy"]
    }
    fn time_note(&self) -> &'static str {
        "simulated time = blocks mined (lock windows and transaction expiry are block heights)"
    }
}

struct SendConn(*mut Connection);
unsafe impl Send for SendConn {}
impl SendConn {
    fn get(&self) -> *mut Connection {
        self.0
    }
}

impl Live {
    fn owner_byte(&self) -> u8 {
        self.tag
    }
}

impl Spend {
    fn overridden(&self, _x: &Live, _y: &Live) -> bool {
        false
    }

    #[allow(clippy::too_many_arguments)]
    fn check_proposal(&self, s: &WalletSim, ctx: &mut RunCtx, p: &Prop, acct: usize, owner: LockOwner, admitted_owner: Option<LockOwner>, live: &[Live], locks: &BTreeMap<NoteKey, (LockOwner, u32, usize)>, ctl: &Ctl, target: u32, _locked: bool) -> SimResult {
        ctx.oracle("proposal_inputs_spendable");
        let (notes, spent) = s.chain.ledger();
        let by_row: BTreeMap<NoteKey, &OutTruth> = notes.values().map(|n| ((PoolK::from(n.pool), n.txid, n.idx), n)).collect();
        let ins = inputs_of(p);
        let mut seen = BTreeSet::new();
        for (k, value, mined, anchor) in &ins {
            let label = format!("{} {} {}:{}", k.0.name(), if k.0 == PoolK::Transparent { "coin" } else { "note" }, hex::encode(&k.1[..4]), k.2);
            if !seen.insert(*k) {
                return ctx.report(Violation::new("no_input_selected_twice", format!("{label} appears twice in one proposal")));
            }
            if k.0 == PoolK::Transparent {
                // a coin the client reported: of the requested account, of that value, mined in a scanned-range block at
                // or below the tip, not spent by a live pending transaction, not under a foreign lock
                let Some(c) = s.t_coins.iter().find(|c| c.txid == k.1 && c.idx as usize == k.2) else {
                    return ctx.report(Violation::new("input_is_a_wallet_note_on_chain", format!("{label} (value {value}) is not a coin the wallet was told about")));
                };
                if c.acct != acct {
                    return ctx.report(Violation::new("input_belongs_to_requested_account", format!("{label} belongs to account {}, the proposal was requested for account {acct}", c.acct)));
                }
                if c.value != *value {
                    return ctx.report(Violation::new("input_value_matches_chain", format!("{label}: proposal says {value}, the coin is worth {}", c.value)));
                }
                if c.state != TState::Mined || !c.on_chain || c.height >= target {
                    return ctx.report(Violation::new("input_has_required_confirmations", format!("{label} is {:?} at height {} (target {target})", c.state, c.height)));
                }
                if *mined != Some(c.height) {
                    return ctx.report(Violation::new("input_mined_height_matches_chain", format!("{label}: proposal says mined at {mined:?}, the coin was mined at {}", c.height)));
                }
                for l in live {
                    if l.inputs.contains(k) {
                        if let Some((_, exp)) = l.stored {
                            if exp >= target {
                                return ctx.report(Violation::new("input_not_spent_by_pending_transaction", format!("{label} is spent by a stored pending transaction that expires at {exp} (target {target})")));
                            }
                        }
                    }
                }
                if let Some((o, e, _)) = locks.get(k) {
                    if *e >= target && *o != owner && Some(*o) != admitted_owner {
                        return ctx.report(Violation::new("input_not_locked_by_another_owner", format!("{label} is locked until {e} by another owner (target {target})")));
                    }
                }
                ctx.probe("transparent_input_selected");
                continue;
            }
            let Some(n) = by_row.get(k) else {
                return ctx.report(Violation::new("input_is_a_wallet_note_on_chain", format!("{label} (value {value}) is not a note of the current chain")));
            };
            if n.acct != acct {
                return ctx.report(Violation::new("input_belongs_to_requested_account", format!("{label} belongs to account {}, the proposal was requested for account {acct}", n.acct)));
            }
            if n.value != *value {
                return ctx.report(Violation::new("input_value_matches_chain", format!("{label}: proposal says {value}, chain says {}", n.value)));
            }
            if let Some(sp) = spent.get(&(n.pool, n.nf)) {
                if s.scanned.contains(&sp.height) {
                    return ctx.report(Violation::new("input_unspent", format!("{label} was spent at scanned height {}", sp.height)));
                }
            }
            if *mined != Some(n.height) {
                return ctx.report(Violation::new("input_mined_height_matches_chain", format!("{label}: proposal says mined at {mined:?}, chain says {}", n.height)));
            }
            // confirmations: mined at or below target - min_conf
            if n.height + ctl.min_conf > target {
                return ctx.report(Violation::new("input_has_required_confirmations", format!("{label} mined at {} has {} confirmations at target {target}; the policy requires at least {}", n.height, target - n.height, ctl.min_conf)));
            }
            if let Some(a) = anchor {
                if n.height > *a {
                    return ctx.report(Violation::new("input_witnessable_at_anchor", format!("{label} mined at {} is above the step's anchor height {a}", n.height)));
                }
            }
            for l in live {
                if !l.inputs.contains(k) {
                    continue;
                }
                if let Some((_, exp)) = l.stored {
                    if exp >= target {
                        return ctx.report(Violation::new("input_not_spent_by_pending_transaction", format!("{label} is spent by a stored pending transaction that expires at {exp} (target {target})")));
                    }
                }
            }
            if let Some((o, e, _)) = locks.get(k) {
                if *e >= target && *o != owner && Some(*o) != admitted_owner {
                    return ctx.report(Violation::new("input_not_locked_by_another_owner", format!("{label} is locked until {e} by another owner (target {target})")));
                }
            }
        }
        // per step: inputs = payments + change + fee
        for (i, step) in p.steps().iter().enumerate() {
            let inp: u64 = step.shielded_inputs().map(|si| si.notes().iter().map(|n| n.note().value().into_u64()).sum()).unwrap_or(0) + step.transparent_inputs().iter().map(|u| u64::from(u.txout().value())).sum::<u64>();
            let pay: u64 = step.transaction_request().payments().values().map(|p| p.amount().map(u64::from).unwrap_or(0)).sum();
            let change: u64 = step.balance().proposed_change().iter().map(|c| u64::from(c.value())).sum();
            let fee = u64::from(step.balance().fee_required());
            if step.prior_step_inputs().is_empty() && inp != pay + change + fee {
                return ctx.report(Violation::new("step_balances_exactly", format!("step {i}: inputs {inp} != payments {pay} + change {change} + fee {fee}")));
            }
        }
        // a request the spendable funds cannot cover returns an error rather than a proposal
        let total_in: u64 = ins.iter().map(|x| x.1).sum();
        let pay: u64 = p.steps().iter().map(|st| st.transaction_request().payments().values().map(|p| p.amount().map(u64::from).unwrap_or(0)).sum::<u64>()).sum();
        if pay > total_in {
            return ctx.report(Violation::new("uncoverable_request_refused", format!("payments {pay} exceed the selected inputs {total_in}")));
        }
        Ok(())
    }
}
