//! Run context (event log, counters), violations, the scenario trait.

use std::collections::{BTreeMap, BTreeSet};

use serde_json::{json, Value};

use crate::choices::{hash_str, Choices};

#[derive(Clone, Debug)]
pub struct Violation {
    /// name of the oracle that fired (the violation class used by the minimiser)
    pub oracle: String,
    /// human readable detail (first differing observable)
    pub detail: String,
    /// stable key describing the failing input / call site, matched against known_findings.json
    pub key: String,
}

impl Violation {
    pub fn new(oracle: &str, detail: impl Into<String>) -> Self {
        Violation { oracle: oracle.to_string(), detail: detail.into(), key: oracle.to_string() }
    }
    pub fn keyed(oracle: &str, key: impl Into<String>, detail: impl Into<String>) -> Self {
        Violation { oracle: oracle.to_string(), detail: detail.into(), key: key.into() }
    }
}

pub type SimResult = Result<(), Violation>;

#[derive(Clone, Debug)]
pub struct KnownFinding {
    pub property: String,
    pub key: String,
    pub what: String,
}

#[derive(Default)]
pub struct RunCtx {
    pub property: String,
    pub seq: u64,
    pub fp: u64,
    pub shape: u64,
    pub trace: Vec<String>,
    pub trace_dropped: u64,
    pub faults: BTreeMap<String, u64>,
    pub probes: BTreeMap<String, u64>,
    pub ops: BTreeMap<String, u64>,
    pub oracles: BTreeMap<String, u64>,
    pub simtime: BTreeMap<String, u64>,
    pub knobs: BTreeMap<String, BTreeSet<u64>>,
    pub states: BTreeSet<u64>,
    pub nontrivial: bool,
    pub known: Vec<KnownFinding>,
    pub known_hits: BTreeMap<String, u64>,
    pub config: Value,
    pub verbose: bool,
    pub t0: Option<std::time::Instant>,
}

const TRACE_CAP: usize = 600;

impl RunCtx {
    pub fn new(property: &str, known: Vec<KnownFinding>, verbose: bool) -> Self {
        RunCtx {
            property: property.to_string(),
            fp: 0x1234_5678_9abc_def1,
            shape: 0x0f0f_0f0f_1357_9bdf,
            known,
            verbose,
            t0: if verbose { Some(std::time::Instant::now()) } else { None },
            config: json!({}),
            ..Default::default()
        }
    }
    fn absorb(h: &mut u64, s: &str) {
        *h = (*h ^ hash_str(s)).wrapping_mul(0x9E37_79B9_7F4A_7C15).rotate_left(23);
    }
    /// Append an observable step to the event log (affects the run fingerprint).
    pub fn event(&mut self, s: impl AsRef<str>) {
        let s = s.as_ref();
        self.seq += 1;
        Self::absorb(&mut self.fp, s);
        if self.verbose {
            eprintln!("#{} [{:.3}s] {}", self.seq, self.t0.get_or_insert_with(std::time::Instant::now).elapsed().as_secs_f64(), s);
        }
        if self.trace.len() < TRACE_CAP {
            self.trace.push(format!("#{} {}", self.seq, s));
        } else {
            self.trace_dropped += 1;
        }
    }
    /// A coarse token (operation kind, outcome class, fault kind, scheduling decision) that
    /// contributes to the run's *shape* hash, the measure of distinct explored behaviours.
    pub fn shape(&mut self, tok: &str) {
        Self::absorb(&mut self.shape, tok);
    }
    pub fn op(&mut self, kind: &str) {
        *self.ops.entry(kind.to_string()).or_default() += 1;
        self.shape(kind);
    }
    /// A fault that actually fired.
    pub fn fault(&mut self, kind: &str) {
        *self.faults.entry(kind.to_string()).or_default() += 1;
        self.nontrivial = true;
        self.shape(kind);
    }
    pub fn fault_n(&mut self, kind: &str, n: u64) {
        if n > 0 {
            *self.faults.entry(kind.to_string()).or_default() += n;
            self.nontrivial = true;
        }
    }
    /// A reach probe: a rare condition the property is about was hit.
    pub fn probe(&mut self, name: &str) {
        let e = self.probes.entry(name.to_string()).or_default();
        if *e == 0 {
            Self::absorb(&mut self.shape, name);
        }
        *e += 1;
        self.nontrivial = true;
    }
    pub fn oracle(&mut self, name: &str) {
        *self.oracles.entry(name.to_string()).or_default() += 1;
    }
    pub fn oracle_n(&mut self, name: &str, n: u64) {
        *self.oracles.entry(name.to_string()).or_default() += n;
    }
    pub fn time(&mut self, unit: &str, n: u64) {
        *self.simtime.entry(unit.to_string()).or_default() += n;
    }
    pub fn knob(&mut self, name: &str, v: u64) {
        self.knobs.entry(name.to_string()).or_default().insert(v);
    }
    pub fn state(&mut self, h: u64) {
        self.states.insert(h);
    }
    /// A scheduling decision that differs from the sequential one.
    pub fn sched(&mut self, tok: &str) {
        self.nontrivial = true;
        self.shape(tok);
    }
    /// Report a violation: returns Ok(()) if it is a listed known finding (it is counted and the
    /// run may continue), Err otherwise.
    pub fn report(&mut self, v: Violation) -> SimResult {
        for k in &self.known {
            if k.property == self.property && v.key.starts_with(&k.key) {
                *self.known_hits.entry(k.key.clone()).or_default() += 1;
                let msg = format!("known-finding {} ({})", k.key, v.detail);
                self.event(msg);
                return Ok(());
            }
        }
        self.event(format!("VIOLATION {}: {}", v.oracle, v.detail));
        Err(v)
    }
    pub fn check(&mut self, cond: bool, oracle: &str, detail: impl FnOnce() -> String) -> SimResult {
        if cond {
            Ok(())
        } else {
            self.report(Violation::new(oracle, detail()))
        }
    }
}

#[derive(Clone, Copy, PartialEq, Eq, Debug)]
pub enum Tier {
    Quick,
    Thorough,
}

pub trait Scenario: Send + Sync {
    fn property(&self) -> &'static str;
    fn name(&self) -> &'static str;
    fn level(&self) -> &'static str {
        "exploration"
    }
    /// One simulated execution.
    fn run(&self, ch: &mut Choices, ctx: &mut RunCtx) -> SimResult;
    /// Number of runs for a tier (the wall-clock budget is a separate cap).
    fn runs(&self, tier: Tier) -> u64;
    /// Wall-clock cap in seconds for the simulation part.
    fn budget_s(&self, tier: Tier) -> u64 {
        match tier {
            Tier::Quick => 150,
            Tier::Thorough => 1500,
        }
    }
    fn rule(&self) -> &'static str;
    fn components(&self) -> Value;
    fn assumptions(&self) -> Vec<&'static str>;
    /// Probes that the workload is expected to reach in a batch; reported when at zero.
    fn expected_probes(&self) -> Vec<&'static str> {
        vec![]
    }
    /// Fault kinds configured for this scenario (reported when never fired).
    fn fault_kinds(&self) -> Vec<&'static str> {
        vec![]
    }
    /// One-time global preparation (template databases, proving keys).
    fn prepare(&self) {}
    /// How a run's simulated time is described in the evidence.
    fn time_note(&self) -> &'static str {
        ""
    }
}
