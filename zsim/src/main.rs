#![allow(dead_code, unused_mut)]
//! zsim — deterministic simulation with fault injection for zcash/librustzcash.
mod atomic;
mod batch;
mod choices;
mod migration;
mod mmr;
mod pcztsim;
mod runner;
mod sim;
mod simchain;
mod spend;
mod stream;
mod wallet;
mod walletscen;

use std::path::PathBuf;
use std::sync::Arc;

use sim::{Scenario, Tier};

/// Tracks the largest single allocation per thread so that a count field that drives an allocation
/// is reported by the oracle instead of killing the process.
struct TrackingAlloc;
unsafe impl std::alloc::GlobalAlloc for TrackingAlloc {
    unsafe fn alloc(&self, l: std::alloc::Layout) -> *mut u8 {
        if l.size() >= (64 << 20) {
            let _ = stream::MAX_ALLOC.try_with(|m| {
                if l.size() > m.get() {
                    m.set(l.size())
                }
            });
        }
        unsafe { std::alloc::System.alloc(l) }
    }
    unsafe fn dealloc(&self, p: *mut u8, l: std::alloc::Layout) {
        unsafe { std::alloc::System.dealloc(p, l) }
    }
    unsafe fn realloc(&self, p: *mut u8, l: std::alloc::Layout, n: usize) -> *mut u8 {
        if n >= (64 << 20) {
            let _ = stream::MAX_ALLOC.try_with(|m| {
                if n > m.get() {
                    m.set(n)
                }
            });
        }
        unsafe { std::alloc::System.realloc(p, l, n) }
    }
}
#[global_allocator]
static GLOBAL: TrackingAlloc = TrackingAlloc;


fn scenarios_for(id: &str) -> Vec<Arc<dyn Scenario>> {
    match id {
        "C20" => vec![Arc::new(mmr::Mmr)],
        "C03" => vec![Arc::new(stream::Stream), Arc::new(stream::Enc)],
        "C01" => vec![Arc::new(walletscen::WalletScenario { prop: "C01" })],
        "C06" => vec![Arc::new(walletscen::WalletScenario { prop: "C06" })],
        "C15" => vec![Arc::new(walletscen::WalletScenario { prop: "C15" })],
        "C02" => vec![Arc::new(atomic::Atomic)],
        "C05" => vec![Arc::new(batch::Batch)],
        "C08" => vec![Arc::new(spend::Spend)],
        "C13" => vec![Arc::new(pcztsim::PcztSim)],
        "C17" => vec![Arc::new(migration::MigScenario { prop: "C17" })],
        "C18" => vec![Arc::new(migration::MigScenario { prop: "C18" })],
        _ => vec![],
    }
}

const ALL: &[&str] = &["C01", "C02", "C03", "C05", "C06", "C08", "C13", "C15", "C17", "C18", "C20"];

fn usage() -> ! {
    eprintln!("usage: zsim <ID> [--tier quick|thorough] [--seed N] [--runs N] [--budget S] [--workers N] [--no-evidence]\n       zsim replay <file> [--quiet]\n       zsim selftest determinism [--n N]");
    std::process::exit(2)
}

/// Remove this process's scratch directory, and those of zsim processes that no longer exist.
fn cleanup_scratch() {
    let root = wallet::scratch_root();
    let _ = std::fs::remove_dir_all(&root);
    if let Some(parent) = root.parent() {
        if let Ok(rd) = std::fs::read_dir(parent) {
            for e in rd.flatten() {
                let name = e.file_name().to_string_lossy().to_string();
                if let Some(pid) = name.strip_prefix("zsim-").and_then(|p| p.parse::<u32>().ok()) {
                    if !std::path::Path::new(&format!("/proc/{pid}")).exists() {
                        let _ = std::fs::remove_dir_all(e.path());
                    }
                }
            }
        }
    }
}

fn main() {
    runner::install_panic_hook();
    let args: Vec<String> = std::env::args().skip(1).collect();
    if args.is_empty() {
        usage();
    }
    let mut tier = match std::env::var("VERIF_TIER").ok().as_deref() {
        Some("thorough") => Tier::Thorough,
        _ => Tier::Quick,
    };
    let mut seed: u64 = std::env::var("VERIF_SEED").ok().and_then(|s| s.trim().parse::<i128>().ok()).map(|v| v as u64).unwrap_or(runner::DEFAULT_SEED);
    let mut runs = None;
    let mut budget = std::env::var("VERIF_BUDGET_S").ok().and_then(|s| s.parse().ok());
    let mut workers = std::thread::available_parallelism().map(|n| n.get()).unwrap_or(8);
    let mut evidence = true;
    let mut quiet = false;
    let mut n_self = 6u64;
    let mut pos = vec![];
    let mut i = 0;
    while i < args.len() {
        match args[i].as_str() {
            "--tier" => {
                i += 1;
                tier = match args.get(i).map(|s| s.as_str()) {
                    Some("quick") => Tier::Quick,
                    Some("thorough") => Tier::Thorough,
                    _ => usage(),
                };
            }
            "--seed" => {
                i += 1;
                seed = args.get(i).and_then(|s| s.parse().ok()).unwrap_or_else(|| usage());
            }
            "--runs" => {
                i += 1;
                runs = Some(args.get(i).and_then(|s| s.parse().ok()).unwrap_or_else(|| usage()));
            }
            "--budget" => {
                i += 1;
                budget = Some(args.get(i).and_then(|s| s.parse().ok()).unwrap_or_else(|| usage()));
            }
            "--workers" => {
                i += 1;
                workers = args.get(i).and_then(|s| s.parse().ok()).unwrap_or_else(|| usage());
            }
            "--n" => {
                i += 1;
                n_self = args.get(i).and_then(|s| s.parse().ok()).unwrap_or_else(|| usage());
            }
            "--no-evidence" => evidence = false,
            "--quiet" => quiet = true,
            s => pos.push(s.to_string()),
        }
        i += 1;
    }
    match pos[0].as_str() {
        "replay" => {
            let path = PathBuf::from(pos.get(1).cloned().unwrap_or_else(|| usage()));
            let s = std::fs::read_to_string(&path).unwrap_or_default();
            let j: serde_json::Value = serde_json::from_str(&s).unwrap_or_default();
            let prop = j["property"].as_str().unwrap_or("").to_string();
            let scs = scenarios_for(&prop);
            if scs.is_empty() {
                eprintln!("harness error: replay file names unknown property {prop:?}");
                std::process::exit(2);
            }
            let code = runner::replay_file(&scs, &path, quiet);
            cleanup_scratch();
            std::process::exit(code);
        }
        "selftest" => {
            std::process::exit(selftest(n_self));
        }
        "fingerprints" => {
            // print run fingerprints for the first N runs of every scenario (used by the determinism self-test)
            let ids: Vec<String> = if pos.len() > 1 { pos[1..].to_vec() } else { ALL.iter().map(|s| s.to_string()).collect() };
            let known = runner::load_known();
            for id in ids {
                for sc in scenarios_for(&id) {
                    sc.prepare();
                    let n = runs.unwrap_or(n_self);
                    let next = Arc::new(std::sync::atomic::AtomicU64::new(0));
                    let out = Arc::new(std::sync::Mutex::new(std::collections::BTreeMap::new()));
                    let mut hs = vec![];
                    for _ in 0..workers {
                        let (sc, next, out, known) = (sc.clone(), next.clone(), out.clone(), known.clone());
                        hs.push(std::thread::spawn(move || loop {
                            let i = next.fetch_add(1, std::sync::atomic::Ordering::Relaxed);
                            if i >= n {
                                break;
                            }
                            let s = runner::run_seed(seed, sc.property(), sc.name(), i);
                            let o = runner::execute(&sc, &known, s, None, false);
                            out.lock().unwrap().insert(i, (o.ctx.fp, o.ctx.seq, o.violation.map(|v| v.oracle)));
                        }));
                    }
                    for h in hs {
                        h.join().unwrap();
                    }
                    for (i, (fp, seq, v)) in out.lock().unwrap().iter() {
                        println!("{} {} {} {:016x} {} {}", sc.property(), sc.name(), i, fp, seq, v.clone().unwrap_or_else(|| "-".into()));
                    }
                }
            }
        }
        id => {
            let scs = scenarios_for(id);
            if scs.is_empty() {
                eprintln!("harness error: no scenario for {id}");
                std::process::exit(2);
            }
            let opts = runner::BatchOpts { tier, seed, workers, runs_override: runs, budget_override: budget, write_evidence: evidence, minimise: true };
            let code = runner::run_batch(&scs, &opts);
            cleanup_scratch();
            std::process::exit(code);
        }
    }
}

/// Determinism self-test: the same seeds must give the same fingerprints across processes and
/// worker counts.
fn selftest(n: u64) -> i32 {
    let exe = std::env::current_exe().unwrap();
    let mut outs = vec![];
    for w in ["1", "4", "16", "16"] {
        let o = std::process::Command::new(&exe).args(["fingerprints", "--n", &n.to_string(), "--workers", w]).output().expect("spawn");
        if !o.status.success() {
            eprintln!("harness error: fingerprints run failed: {}", String::from_utf8_lossy(&o.stderr));
            return 2;
        }
        outs.push(String::from_utf8_lossy(&o.stdout).to_string());
    }
    for (i, o) in outs.iter().enumerate().skip(1) {
        if *o != outs[0] {
            eprintln!("harness error: nondeterminism between process 0 and process {i}");
            for (a, b) in outs[0].lines().zip(o.lines()) {
                if a != b {
                    eprintln!("  {a}\n  {b}");
                }
            }
            return 2;
        }
    }
    println!("determinism self-test: {} fingerprints identical across 4 processes (1/4/16/16 workers), shim={}", outs[0].lines().count(), runner::shim_loaded());
    0
}
