//! The choice stream: the single source of every decision a simulated run makes.
//!
//! Search mode draws from a PRNG seeded from (VERIF_SEED, property, run index) and records each
//! draw; replay mode plays a recorded list back (values out of range are reduced modulo the bound,
//! an exhausted list yields zeros, i.e. the simplest choice everywhere).

use serde_json::{json, Value};

#[derive(Clone, Debug)]
pub enum Rec {
    Open(String),
    Close,
    Draw { label: &'static str, bound: u64, value: u64 },
}

pub fn splitmix(x: &mut u64) -> u64 {
    *x = x.wrapping_add(0x9E37_79B9_7F4A_7C15);
    let mut z = *x;
    z = (z ^ (z >> 30)).wrapping_mul(0xBF58_476D_1CE4_E5B9);
    z = (z ^ (z >> 27)).wrapping_mul(0x94D0_49BB_1331_11EB);
    z ^ (z >> 31)
}

pub fn mix(a: u64, b: u64) -> u64 {
    let mut s = a ^ b.rotate_left(32) ^ 0x5851_F42D_4C95_7F2D;
    let x = splitmix(&mut s);
    let mut t = x ^ b;
    splitmix(&mut t)
}

pub fn hash_str(s: &str) -> u64 {
    let mut h: u64 = 0xcbf2_9ce4_8422_2325;
    for b in s.as_bytes() {
        h ^= *b as u64;
        h = h.wrapping_mul(0x0000_0100_0000_01B3);
    }
    h
}

#[derive(Clone)]
struct Xo {
    s: [u64; 4],
}
impl Xo {
    fn new(seed: u64) -> Self {
        let mut x = seed;
        Xo { s: [splitmix(&mut x), splitmix(&mut x), splitmix(&mut x), splitmix(&mut x)] }
    }
    fn next(&mut self) -> u64 {
        let r = self.s[1].wrapping_mul(5).rotate_left(7).wrapping_mul(9);
        let t = self.s[1] << 17;
        self.s[2] ^= self.s[0];
        self.s[3] ^= self.s[1];
        self.s[1] ^= self.s[2];
        self.s[0] ^= self.s[3];
        self.s[2] ^= t;
        self.s[3] = self.s[3].rotate_left(45);
        r
    }
}

enum Mode {
    Search(Xo),
    Replay { vals: Vec<u64>, pos: usize },
}

pub struct Choices {
    mode: Mode,
    pub rec: Vec<Rec>,
    pub seed: u64,
    record: bool,
}

impl Choices {
    pub fn search(seed: u64) -> Self {
        Choices { mode: Mode::Search(Xo::new(seed)), rec: Vec::new(), seed, record: true }
    }
    pub fn replay(seed: u64, vals: Vec<u64>) -> Self {
        Choices { mode: Mode::Replay { vals, pos: 0 }, rec: Vec::new(), seed, record: true }
    }
    pub fn is_replay(&self) -> bool {
        matches!(self.mode, Mode::Replay { .. })
    }
    /// False once a replayed sequence is exhausted (always true while searching). Loops over
    /// generated operations test this so that a shortened recording ends the run early.
    pub fn more(&self) -> bool {
        match &self.mode {
            Mode::Search(_) => true,
            Mode::Replay { vals, pos } => *pos < vals.len(),
        }
    }
    pub fn open(&mut self, name: &str) {
        if self.record {
            self.rec.push(Rec::Open(name.to_string()));
        }
    }
    pub fn close(&mut self) {
        if self.record {
            self.rec.push(Rec::Close);
        }
    }
    fn raw(&mut self, label: &'static str, bound: u64) -> u64 {
        let v = match &mut self.mode {
            Mode::Search(x) => {
                let r = x.next();
                if bound == 0 {
                    r
                } else {
                    // multiply-shift; bias is irrelevant here
                    ((r as u128 * bound as u128) >> 64) as u64
                }
            }
            Mode::Replay { vals, pos } => {
                let v = if *pos < vals.len() { vals[*pos] } else { 0 };
                *pos += 1;
                if bound == 0 {
                    v
                } else {
                    v % bound
                }
            }
        };
        if self.record {
            self.rec.push(Rec::Draw { label, bound, value: v });
        }
        v
    }
    /// Uniform in [0, n); n must be > 0. 0 is the "simplest" value.
    pub fn below(&mut self, label: &'static str, n: u64) -> u64 {
        assert!(n > 0, "below({label}, 0)");
        if n == 1 {
            return 0;
        }
        self.raw(label, n)
    }
    pub fn idx(&mut self, label: &'static str, n: usize) -> usize {
        self.below(label, n as u64) as usize
    }
    /// Uniform in [lo, hi] inclusive.
    pub fn range(&mut self, label: &'static str, lo: u64, hi: u64) -> u64 {
        assert!(lo <= hi);
        lo + self.below(label, hi - lo + 1)
    }
    /// True with probability num/den; the zero choice is `false`.
    pub fn chance(&mut self, label: &'static str, num: u64, den: u64) -> bool {
        if num == 0 {
            return false;
        }
        let v = self.below(label, den);
        v >= den - num.min(den)
    }
    /// Index drawn with the given weights; index 0 is the zero choice.
    pub fn weighted(&mut self, label: &'static str, w: &[u64]) -> usize {
        let total: u64 = w.iter().sum();
        assert!(total > 0);
        let mut v = self.below(label, total);
        for (i, wi) in w.iter().enumerate() {
            if v < *wi {
                return i;
            }
            v -= *wi;
        }
        w.len() - 1
    }
    pub fn pick<'a, T>(&mut self, label: &'static str, xs: &'a [T]) -> &'a T {
        &xs[self.idx(label, xs.len())]
    }
    /// A full 64-bit value (recorded as one entry), e.g. to seed a derived byte stream.
    pub fn u64(&mut self, label: &'static str) -> u64 {
        self.raw(label, 0)
    }
    /// `n` bytes derived from one recorded 64-bit draw.
    pub fn bytes(&mut self, label: &'static str, n: usize) -> Vec<u8> {
        let mut s = self.u64(label);
        let mut out = Vec::with_capacity(n);
        while out.len() < n {
            let w = splitmix(&mut s).to_le_bytes();
            let k = (n - out.len()).min(8);
            out.extend_from_slice(&w[..k]);
        }
        out
    }
    pub fn bytes32(&mut self, label: &'static str) -> [u8; 32] {
        let v = self.bytes(label, 32);
        let mut a = [0u8; 32];
        a.copy_from_slice(&v);
        a
    }
    /// Fisher-Yates shuffle driven by the stream (zero choices = identity).
    pub fn shuffle<T>(&mut self, label: &'static str, xs: &mut [T]) {
        let n = xs.len();
        for i in 0..n.saturating_sub(1) {
            let j = i + self.idx(label, n - i);
            xs.swap(i, j);
        }
    }
    /// A sub-stream PRNG (for bulk data that need not be shrunk), seeded by one recorded draw.
    pub fn fork_rng(&mut self, label: &'static str) -> SubRng {
        SubRng { s: self.u64(label) }
    }

    pub fn values(&self) -> Vec<u64> {
        self.rec
            .iter()
            .filter_map(|r| if let Rec::Draw { value, .. } = r { Some(*value) } else { None })
            .collect()
    }
    pub fn to_json(&self) -> Value {
        rec_to_json(&self.rec)
    }
}

pub fn rec_to_json(rec: &[Rec]) -> Value {
    Value::Array(
        rec.iter()
            .map(|r| match r {
                Rec::Open(n) => json!(["(", n]),
                Rec::Close => json!([")"]),
                Rec::Draw { label, bound, value } => json!([label, bound, value]),
            })
            .collect(),
    )
}

/// Parsed replay entries: (is_open, is_close, value)
#[derive(Clone, Debug)]
pub enum Ent {
    Open(String),
    Close,
    Val(String, u64, u64),
}

pub fn ents_from_json(v: &Value) -> Vec<Ent> {
    let mut out = Vec::new();
    if let Some(a) = v.as_array() {
        for e in a {
            let e = e.as_array().cloned().unwrap_or_default();
            match e.first().and_then(|x| x.as_str()) {
                Some("(") => out.push(Ent::Open(e.get(1).and_then(|x| x.as_str()).unwrap_or("").to_string())),
                Some(")") => out.push(Ent::Close),
                Some(l) => out.push(Ent::Val(
                    l.to_string(),
                    e.get(1).and_then(|x| x.as_u64()).unwrap_or(0),
                    e.get(2).and_then(|x| x.as_u64()).unwrap_or(0),
                )),
                None => {}
            }
        }
    }
    out
}

pub fn ents_from_rec(rec: &[Rec]) -> Vec<Ent> {
    rec.iter()
        .map(|r| match r {
            Rec::Open(n) => Ent::Open(n.clone()),
            Rec::Close => Ent::Close,
            Rec::Draw { label, bound, value } => Ent::Val(label.to_string(), *bound, *value),
        })
        .collect()
}

pub fn ents_values(e: &[Ent]) -> Vec<u64> {
    e.iter().filter_map(|x| if let Ent::Val(_, _, v) = x { Some(*v) } else { None }).collect()
}

pub fn ents_to_json(e: &[Ent]) -> Value {
    Value::Array(
        e.iter()
            .map(|r| match r {
                Ent::Open(n) => json!(["(", n]),
                Ent::Close => json!([")"]),
                Ent::Val(l, b, v) => json!([l, b, v]),
            })
            .collect(),
    )
}

/// Small deterministic PRNG for bulk data; also implements `RngCore` so it can be handed to
/// library code that wants an RNG.
#[derive(Clone, Debug)]
pub struct SubRng {
    pub s: u64,
}
impl SubRng {
    pub fn new(seed: u64) -> Self {
        SubRng { s: seed }
    }
    pub fn next(&mut self) -> u64 {
        splitmix(&mut self.s)
    }
    pub fn below(&mut self, n: u64) -> u64 {
        if n <= 1 {
            0
        } else {
            ((self.next() as u128 * n as u128) >> 64) as u64
        }
    }
    pub fn fill(&mut self, out: &mut [u8]) {
        for ch in out.chunks_mut(8) {
            let w = self.next().to_le_bytes();
            ch.copy_from_slice(&w[..ch.len()]);
        }
    }
    pub fn bytes32(&mut self) -> [u8; 32] {
        let mut a = [0u8; 32];
        self.fill(&mut a);
        a
    }
}
impl rand_core::RngCore for SubRng {
    fn next_u32(&mut self) -> u32 {
        (self.next() >> 32) as u32
    }
    fn next_u64(&mut self) -> u64 {
        self.next()
    }
    fn fill_bytes(&mut self, dest: &mut [u8]) {
        self.fill(dest)
    }
    fn try_fill_bytes(&mut self, dest: &mut [u8]) -> Result<(), rand_core::Error> {
        self.fill(dest);
        Ok(())
    }
}
impl rand_core::CryptoRng for SubRng {}
