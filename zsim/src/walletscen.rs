//! Scenario driver for the wallet simulation: C01 (ledger), C06 (trees), C15 (queue).

use crate::simchain::POOLS;
use zcash_client_backend::data_api::scanning::ScanPriority;
use serde_json::json;

use crate::choices::Choices;
use crate::sim::{RunCtx, Scenario, SimResult, Tier, Violation};
use crate::wallet::*;

pub struct WalletScenario {
    pub prop: &'static str,
}

fn owner(oracle_family: &str) -> &'static str {
    match oracle_family {
        "ledger" | "differential" => "C01",
        "trees" => "C06",
        "queue" | "liveness" => "C15",
        _ => "",
    }
}

impl WalletScenario {
    /// A block range to scan: for the queue property a chunk from either end of any *suggested* range
    /// (that is what the property quantifies over), otherwise any range of the known chain.
    fn pick_range(&self, s: &mut WalletSim, ch: &mut Choices, max: u64) -> Option<(u32, usize)> {
        let tip = s.chain.tip();
        let base = s.cfg.base_height;
        if self.prop == "C15" {
            let sug = {
                use zcash_client_backend::data_api::WalletRead;
                let d = db!(s);
                d.suggest_scan_ranges().unwrap_or_default()
            };
            let sug: Vec<(u32, u32)> = sug.iter().map(|r| (u32::from(r.block_range().start), u32::from(r.block_range().end).min(tip + 1))).filter(|(a, b)| a < b && *a > base).collect();
            if sug.is_empty() {
                return None;
            }
            let (a, b) = sug[ch.idx("sug.i", sug.len())];
            let n = (1 + ch.below("limit", max.min((b - a) as u64)) as u32).min(b - a);
            Some((if ch.chance("from_end", 1, 2) { b - n } else { a }, n as usize))
        } else {
            let mut from = base + 1 + ch.below("from", (tip - base) as u64) as u32;
            // a quarter of the batches start right above an anchor-retention boundary (the batch's starting
            // frontier is then the only checkpoint that boundary may ever get in a pool with no commitment there)
            if let Some(act) = s.cfg.nu6_3 {
                if ch.chance("from.on_grid", 1, 4) {
                    let step = s.cfg.retention.unwrap_or(144);
                    let b = from - from % step;
                    if b >= act && b > base && b < tip {
                        from = b + 1;
                    }
                }
            }
            Some((from, 1 + ch.below("limit", max) as usize))
        }
    }

    fn owns(&self, family: &str) -> bool {
        owner(family) == self.prop
    }

    fn after_op(&self, s: &mut WalletSim, ch: &mut Choices, ctx: &mut RunCtx, full: bool) -> SimResult {
        if let Some(w) = std::env::var("ZSIM_WATCH_CP").ok().and_then(|x| x.parse::<u32>().ok()) {
            for t in ["sapling", "orchard", "ironwood"] {
                let has: bool = s.conn.query_row(&format!("SELECT EXISTS(SELECT 1 FROM {t}_tree_checkpoints WHERE checkpoint_id = ?1)"), [w], |r| r.get(0)).unwrap_or(false);
                let n: i64 = s.conn.query_row(&format!("SELECT COUNT(*) FROM {t}_tree_checkpoints"), [], |r| r.get(0)).unwrap_or(0);
                let mn: Option<u32> = s.conn.query_row(&format!("SELECT MIN(checkpoint_id) FROM {t}_tree_checkpoints"), [], |r| r.get(0)).unwrap_or(None);
                eprintln!("  [{}] {t}: checkpoint {w} present={has} total={n} min={mn:?}", ctx.seq);
            }
        }
        if std::env::var_os("ZSIM_DEBUG").is_some() {
            for t in ["sapling", "orchard", "ironwood"] {
                let rh: Vec<(i64, Option<u32>, Option<Vec<u8>>)> = s.conn.prepare(&format!("SELECT shard_index, subtree_end_height, root_hash FROM {t}_tree_shards ORDER BY 1")).unwrap().query_map([], |r| Ok((r.get(0)?, r.get(1)?, r.get(2)?))).unwrap().map(|x| x.unwrap()).collect();
                if rh.iter().any(|x| x.2.is_some()) {
                    eprintln!("  [{}] {t} shard roots: {:?}", ctx.seq, rh.iter().map(|(i, h, r)| (*i, *h, r.as_ref().map(|x| hex::encode(&x[..4])))).collect::<Vec<_>>());
                }
            }
        }
        // every cheap oracle after every operation; only the owning property reports
        let t = std::time::Instant::now();
        s.check_ledger(ctx, self.owns("ledger"))?;
        ctx.time("cpu_us_oracle_ledger", t.elapsed().as_micros() as u64);
        let t = std::time::Instant::now();
        s.check_queue(ctx, self.owns("queue"))?;
        ctx.time("cpu_us_oracle_queue", t.elapsed().as_micros() as u64);
        let mut r = ch.fork_rng("trees.sample");
        if (full && (self.prop == "C06" || r.below(3) == 0)) || (!full && r.below(if self.prop == "C06" { 2 } else { 10 }) == 0) {
            let t = std::time::Instant::now();
            s.check_trees(ctx, self.owns("trees"), full, &mut r)?;
            ctx.time("cpu_us_oracle_trees", t.elapsed().as_micros() as u64);
        }
        Ok(())
    }
}

impl Scenario for WalletScenario {
    fn property(&self) -> &'static str {
        self.prop
    }
    fn name(&self) -> &'static str {
        match self.prop {
            "C01" => "ledger",
            "C06" => "trees",
            _ => "queue",
        }
    }
    fn prepare(&self) {
        let _ = template_db();
    }
    fn run(&self, ch: &mut Choices, ctx: &mut RunCtx) -> SimResult {
        let cfg = draw_cfg(ch, self.prop == "C06");
        ctx.config = cfg_json(&cfg);
        ctx.shape(&format!("a{}n{:?}w{}r{}", cfg.n_accounts, cfg.nu6_3, cfg.wal, cfg.retention.is_some()));
        let seed = ch.u64("chain.seed");
        let mut s = WalletSim::new(cfg, seed, ctx)?;
        let long = ch.chance("long_run", 1, 10);
        // ---- initial chain
        let n0 = if long { 120 + ch.below("init.blocks.long", 200) } else { 5 + ch.below("init.blocks", 60) };
        {
            let mut r = ch.fork_rng("init.chain");
            for _ in 0..n0 {
                s.gen_block(&mut r, ctx);
            }
        }
        let n_ops = 4 + ch.below("n_ops", if long { 16 } else { 22 });
        let faults_on = ch.chance("faults_on", 3, 4);
        for _ in 0..n_ops {
            if !ch.more() {
                break;
            }
            ch.open("op");
            let tip = s.chain.tip();
            let base = s.cfg.base_height;
            let k = ch.weighted("op", &[26, 16, 18, 10, 8, 5, 7, if faults_on { 10 } else { 0 }, if self.prop == "C15" { 10 } else { 6 }, if self.prop == "C15" { 10 } else { 4 }, if self.prop == "C01" { 8 } else { 2 }, if self.prop == "C06" { 8 } else { 4 }]);
            match k {
                // honest client step
                0 => {
                    ctx.op("sync_step");
                    let limit = 1 + ch.below("limit", 50) as usize;
                    let from_end = ch.chance("from_end", 1, 3);
                    match s.sync_step(limit, from_end, ctx) {
                        Ok(_) => {}
                        Err(v) if v.oracle == "rewind_within_pruning_depth_succeeds" || v.oracle == "sync_recovers_from_scan_error" => {
                            // a refused rewind is a legal outcome for some scan histories; no verdict from this run on
                            ctx.probe("rewind_refused");
                            ctx.event(format!("run ends without verdict: {}", v.detail));
                            ch.close();
                            return Ok(());
                        }
                        Err(v) => return ctx.report(v),
                    }
                }
                // extend the chain
                1 => {
                    ctx.op("extend_chain");
                    let n = 1 + ch.below("n", if long { 60 } else { 25 });
                    let mut r = ch.fork_rng("blocks");
                    for _ in 0..n {
                        s.gen_block(&mut r, ctx);
                    }
                    ctx.event(format!("chain extended by {n} to {}", s.chain.tip()));
                    if ch.chance("tell_tip", 2, 3) {
                        if let Err(e) = s.update_tip(s.chain.tip()) {
                            return ctx.report(Violation::new("update_chain_tip_succeeds", e));
                        }
                    }
                }
                // scan an arbitrary known range (any order, repeats)
                2 => {
                    if s.dirty_fork.is_none() && tip > base {
                        ctx.op("scan_arbitrary");
                        if ch.chance("scan.new_session", 1, 3) {
                            s.refresh_roots_if_stale(ctx).or_else(|v| ctx.report(v))?;
                        }
                        let Some((from, limit)) = self.pick_range(&mut s, ch, 40) else {
                            ch.close();
                            continue;
                        };
                        // the caller must not hand the wallet a range that overlaps blocks it holds from
                        // another branch; with no dirty fork any range of the current chain is legal
                        match s.scan(from, limit, &SimSourceCfg::default(), ctx)? {
                            Ok((a, b)) => {
                                ctx.event(format!("scan {from}+{limit} -> scanned {a}..{b}"));
                                s.model_scanned(a, b, ctx);
                                ctx.shape("scan_ok");
                            }
                            Err(e) => {
                                ctx.event(format!("scan {from}+{limit} failed: {e}"));
                                return ctx.report(Violation::new("legal_scan_succeeds", format!("scan of blocks {from}..{} of the current chain with the true prior chain state failed: {e}", from as usize + limit)));
                            }
                        }
                    }
                }
                // fork: abandon the last d blocks, mine a different continuation
                3 => {
                    if tip > base + 2 {
                        ctx.op("fork");
                        let mut d = 1 + ch.below("depth", 30.min((tip - base - 1) as u64)) as u32;
                        // a third of the forks go just below a block that completed a 2^16-leaf subtree in some pool (the
                        // rewind then lands inside a shard that the abandoned branch had completed)
                        if ch.chance("fork.below_subtree_end", 1, 3) {
                            let ends: Vec<u32> = POOLS.iter().flat_map(|p| s.chain.completed_subtrees(*p, tip).into_iter().map(|x| x.1)).filter(|h| *h > base + 1 && *h + 35 > tip && *h <= tip).collect();
                            if !ends.is_empty() {
                                let c = ends[ch.idx("fork.which_end", ends.len())];
                                let below = 1 + ch.below("fork.below", 3) as u32;
                                let fp = c.saturating_sub(below).max(base + 1);
                                if fp < tip {
                                    d = tip - fp;
                                    ctx.probe("fork_just_below_a_subtree_completion");
                                }
                            }
                        }
                        let extra = ch.below("extra", 12) as u32;
                        s.fork_at(tip - d, ctx);
                        let mut r = ch.fork_rng("fork.blocks");
                        for _ in 0..(d + extra) {
                            s.gen_block(&mut r, ctx);
                        }
                        ctx.event(format!("fork at {} (depth {d}), new tip {}", tip - d, s.chain.tip()));
                    }
                }
                // explicit rewind on the same branch
                4 => {
                    if let Some(maxs) = s.scanned.iter().next_back().copied() {
                        ctx.op("truncate");
                        let lo = maxs.saturating_sub(60).max(base);
                        let h = lo + ch.below("h", (maxs - lo + 1) as u64) as u32;
                        match s.truncate(h, ctx)? {
                            Ok(got) => {
                                ctx.event(format!("truncate_to_height({h}) -> {got}"));
                                ctx.shape("trunc_ok");
                            }
                            Err(e) => {
                                ctx.event(format!("truncate_to_height({h}) refused: {e}"));
                                ctx.shape("trunc_refused");
                            }
                        }
                    }
                }
                // restart
                5 => {
                    ctx.op("restart");
                    s.restart();
                    ctx.fault("restart");
                    ctx.event("restart: connection dropped and reopened");
                }
                // tip update variants
                6 => {
                    ctx.op("update_tip");
                    let v = ch.below("variant", 4);
                    let h = match v {
                        0 => tip,
                        1 => tip.saturating_sub(ch.below("behind", 5) as u32).max(base + 1),
                        // the wallet was closed and is reopened with the tip about one pruning depth above what it scanned
                        3 => {
                            let maxs = s.scanned.iter().next_back().copied().unwrap_or(base);
                            let h = maxs + 98 + ch.below("around_pruning_depth", 5) as u32;
                            if h > tip && h - tip <= 110 && s.dirty_fork.is_none() && ch.chance("away_for_a_while", 1, 2) {
                                // nobody scanned while the chain grew
                                let mut r = ch.fork_rng("away.blocks");
                                while s.chain.tip() < h {
                                    s.gen_block(&mut r, ctx);
                                }
                            }
                            if h <= s.chain.tip() && h > base {
                                ctx.probe("tip_about_one_pruning_depth_above_max_scanned");
                                h
                            } else {
                                s.chain.tip()
                            }
                        }
                        _ => tip,
                    };
                    if s.dirty_fork.is_none() || v == 0 || h == s.chain.tip() {
                        match s.update_tip(h) {
                            Ok(()) => ctx.event(format!("update_chain_tip({h})")),
                            Err(e) => return ctx.report(Violation::new("update_chain_tip_succeeds", format!("update_chain_tip({h}): {e}"))),
                        }
                    }
                }
                // forced rescan: rewind_to_chain_state on the current chain
                8 => {
                    if s.dirty_fork.is_none() && tip > base {
                        ctx.op("rewind_to_chain_state");
                        let told = s.tip_told.unwrap_or(tip).min(tip);
                        let maxs = s.scanned.iter().next_back().copied().unwrap_or(base);
                        // targets near the wallet's tip, near the highest scanned block, or anywhere
                        let target = match ch.below("target.kind", 4) {
                            0 => told.saturating_sub(1 + ch.below("below_tip", 3) as u32),
                            1 => maxs.saturating_sub(ch.below("below_max", 4) as u32),
                            2 => maxs.saturating_sub(ch.below("deep", 130) as u32),
                            _ => base + ch.below("any", (tip - base) as u64) as u32,
                        }
                        .max(base)
                        .min(tip);
                        let reset_all = ch.chance("reset_birthdays", 1, 3);
                        match s.rewind_chain_state(target, reset_all, ctx, self.owns("queue"))? {
                            Ok(()) => {
                                ctx.event(format!("rewind_to_chain_state({target}) ok; {} heights queued again", s.requeued.len()));
                                ctx.shape("rewind_cs_ok");
                                ctx.probe("forced_rescan_installed");
                            }
                            Err(e) => {
                                ctx.event(format!("rewind_to_chain_state({target}) refused: {e}"));
                                ctx.shape("rewind_cs_refused");
                            }
                        }
                    }
                }
                // caller-supplied rescan range
                9 => {
                    let q = read_queue(&s.conn).unwrap_or_default();
                    if let (Some(lo), Some(hi)) = (q.first().map(|e| e.0), q.last().map(|e| e.1)) {
                        if hi > lo && s.dirty_fork.is_none() {
                            ctx.op("queue_rescans");
                            // inside the queue's extent (an insertion beyond it is outside the documented use)
                            let mut a = lo + ch.below("a", (hi - lo) as u64) as u32;
                            let mut b = (a + 1 + ch.below("len", 40) as u32).min(hi);
                            // half of the time the range swallows a whole Scanned entry (and sticks out on both sides)
                            let scanned_entries: Vec<(u32, u32)> = q.iter().filter(|e| e.2 == 10 && e.0 > base + 1 && e.1 < hi).map(|e| (e.0, e.1)).collect();
                            if !scanned_entries.is_empty() && ch.chance("around_scanned_entry", 1, 2) {
                                let e = scanned_entries[ch.idx("which_entry", scanned_entries.len())];
                                a = e.0.saturating_sub(1 + ch.below("before", 3) as u32).max(lo).max(base + 1);
                                b = (e.1 + 1 + ch.below("after", 3) as u32).min(hi);
                                ctx.probe("rescan_range_swallows_a_scanned_entry");
                            }
                            let prio = *ch.pick("prio", &[ScanPriority::Historic, ScanPriority::OpenAdjacent, ScanPriority::FoundNote, ScanPriority::ChainTip, ScanPriority::Verify, ScanPriority::Ignored]);
                            if a > base {
                                match s.queue_rescan(a, b, prio, ctx, self.owns("queue"))? {
                                    Ok(()) => ctx.event(format!("queue_rescans({a}..{b}, {prio:?})")),
                                    Err(e) => ctx.event(format!("queue_rescans({a}..{b}, {prio:?}) refused: {e}")),
                                }
                            }
                        }
                    }
                }
                // the client reports a transparent coin (a new one, or one a rewind un-mined that is still on the chain)
                10 => {
                    if s.dirty_fork.is_none() && tip > base {
                        ctx.op("put_utxo");
                        let redo: Vec<usize> = s.t_coins.iter().enumerate().filter(|(_, c)| c.on_chain && c.state != TState::Mined).map(|(i, _)| i).collect();
                        let which = if !redo.is_empty() && ch.chance("rediscover", 1, 2) {
                            Ok(redo[ch.idx("which", redo.len())])
                        } else {
                            let told = s.tip_told.unwrap_or(tip).min(tip);
                            let maxs = s.scanned.iter().next_back().copied().unwrap_or(base);
                            // in a scanned block, above everything scanned, or anywhere up to the tip the wallet knows
                            let h = match ch.below("h.kind", 3) {
                                0 => base + 1 + ch.below("h", (told.max(base + 1) - base) as u64) as u32,
                                1 => (maxs + 1 + ch.below("above", 5) as u32).min(told.max(base + 1)),
                                _ => maxs.max(base + 1),
                            };
                            let value = *ch.pick("value", &[100_000u64, 5_000, 1, 2_000_000, 30_000]);
                            Err((ch.idx("acct", s.accounts.len()), value, h, ch.u64("salt")))
                        };
                        match s.put_utxo(which, ctx)? {
                            Ok(()) => {
                                let c = s.t_coins.last().unwrap();
                                ctx.event(format!("transparent coin reported ({} coins known; last {}@{})", s.t_coins.len(), c.value, c.height));
                            }
                            Err(e) => ctx.event(format!("put_received_transparent_utxo refused: {e}")),
                        }
                    }
                }
                // the client passes on the subtree roots its server reports (true roots of the current chain)
                11 => {
                    if s.dirty_fork.is_none() && tip > base {
                        ctx.op("put_subtree_roots");
                        let upto = s.tip_told.unwrap_or(tip).min(tip);
                        for pool in POOLS {
                            if !s.chain.pool_active(pool, upto) {
                                continue;
                            }
                            match s.put_subtree_roots(pool, upto, ctx)? {
                                Ok(0) => {}
                                Ok(n) => ctx.event(format!("{} subtree roots inserted for {}", n, pool.name())),
                                Err(e) => {
                                    ch.close();
                                    return ctx.report(Violation::new("true_subtree_roots_accepted", format!("put_{}_subtree_roots with the chain's own roots failed: {e}", pool.name())));
                                }
                            }
                        }
                    }
                }
                // faulty scans: the scan must fail and change nothing the model can see
                _ => {
                    if tip > base {
                        ctx.op("scan_faulty");
                        let Some((from, limit)) = self.pick_range(&mut s, ch, 30) else {
                            ch.close();
                            continue;
                        };
                        let fk = ch.below("fault", 3);
                        let mut src = SimSourceCfg::default();
                        let mut expect_fail = true;
                        match fk {
                            0 => {
                                // block source fails before block k of the first or second pass
                                let avail = (tip + 1 - from) as usize;
                                src.fail_at = Some(ch.idx("fail_at", limit.min(avail)));
                                src.fail_in_call = Some(ch.idx("pass", 2));
                            }
                            1 => {
                                // the source still serves the abandoned branch at some heights
                                // A block of the abandoned branch is detectably foreign only if its parent is another
                                // abandoned block while the wallet is given / holds the current chain's block there, or if
                                // the current chain's next block follows it in the same batch. (The first abandoned block
                                // after the fork point connects to the common ancestor and cannot be told apart.)
                                let first_stale = s.stale.iter().map(|b| b.height).min().unwrap_or(0);
                                let end = from as usize + limit;
                                let cands: Vec<&crate::simchain::SimBlock> = s
                                    .stale
                                    .iter()
                                    .filter(|b| b.height >= from && (b.height as usize) < end && b.height <= tip)
                                    .filter(|b| {
                                        let parent_visible = b.height > first_stale && (b.height > from || s.scanned.contains(&(b.height - 1)));
                                        let child_in_batch = ((b.height + 1) as usize) < end && b.height < tip;
                                        parent_visible || child_in_batch
                                    })
                                    .collect();
                                if s.dirty_fork.is_none() && !cands.is_empty() {
                                    let b = cands[ch.idx("stale.i", cands.len())];
                                    src.overrides.insert(b.height, b.cb.clone());
                                    expect_fail = true;
                                    ctx.fault("blocksource_stale_fork");
                                } else {
                                    ch.close();
                                    continue;
                                }
                            }
                            _ => {
                                // SQLite interrupt inside the write
                                let at = 50 + ch.below("sql.at", 6000);
                                let counter = std::sync::Arc::new(std::sync::atomic::AtomicU64::new(0));
                                let c2 = counter.clone();
                                // delivered once, at the first VM step >= `at` that is not inside a transaction-control
                                // statement (see atomic::stmt_tracer: an interrupted BEGIN / ROLLBACK is an artefact of
                                // sqlite3_interrupt, not of the I/O failure it stands for)
                                let done = std::sync::Arc::new(std::sync::atomic::AtomicBool::new(false));
                                let d2 = done.clone();
                                crate::atomic::IN_ROLLBACK.with(|c| c.set(false));
                                s.conn.trace_v2(rusqlite::trace::TraceEventCodes::SQLITE_TRACE_STMT, Some(crate::atomic::stmt_tracer));
                                s.conn.progress_handler(
                                    1,
                                    Some(move || {
                                        let k = c2.fetch_add(1, std::sync::atomic::Ordering::Relaxed) + 1;
                                        crate::atomic::STEP_DBG.with(|c| c.set(k));
                                        if k >= at && !d2.load(std::sync::atomic::Ordering::Relaxed) && !crate::atomic::IN_ROLLBACK.with(|c| c.get()) {
                                            d2.store(true, std::sync::atomic::Ordering::Relaxed);
                                            return true;
                                        }
                                        false
                                    }),
                                );
                                let r = s.scan(from, limit, &src, ctx);
                                s.conn.progress_handler(1, None::<fn() -> bool>);
                                s.conn.trace_v2(rusqlite::trace::TraceEventCodes::SQLITE_TRACE_STMT, None);
                                let fired = done.load(std::sync::atomic::Ordering::Relaxed);
                                if fired {
                                    ctx.fault("sql_interrupt@step");
                                }
                                match r? {
                                    Ok((a, b)) => {
                                        if s.dirty_fork.is_some() {
                                            // scanning across an un-rewound fork is outside the contract; stop here
                                            ctx.probe("scan_across_unrewound_fork");
                                            ch.close();
                                            return Ok(());
                                        }
                                        s.model_scanned(a, b, ctx);
                                    }
                                    Err(e) => ctx.event(format!("scan {from}+{limit} with interrupt at step {at}: {e}")),
                                }
                                ch.close();
                                self.after_op(&mut s, ch, ctx, false)?;
                                continue;
                            }
                        }
                        if s.dirty_fork.is_some() {
                            ch.close();
                            continue;
                        }
                        match s.scan(from, limit, &src, ctx)? {
                            Ok((a, b)) => {
                                if expect_fail && (fk == 1) {
                                    return ctx.report(Violation::new("stale_branch_block_rejected", format!("scan {from}+{limit} accepted a block of the abandoned branch (scanned {a}..{b})")));
                                }
                                if fk == 0 {
                                    // the failing position was past the available blocks
                                    s.model_scanned(a, b, ctx);
                                }
                            }
                            Err(e) => {
                                ctx.event(format!("faulty scan {from}+{limit} (fault {fk}) failed as it should: {e}"));
                                ctx.shape("faulty_scan_err");
                            }
                        }
                    }
                }
            }
            ch.close();
            self.after_op(&mut s, ch, ctx, false)?;
        }
        // ---- faults stop: the honest client must finish within the protocol bound
        ctx.event("fault phase over; honest sync to completion");
        if s.tip_told.map(|t| t > s.chain.tip()).unwrap_or(false) {
            // cannot happen with the operations above, kept as a guard
            return Ok(());
        }
        let t_sync = std::time::Instant::now();
        let done = match s.sync_to_completion(ch, ctx, self.owns("liveness")) {
            Ok(d) => d,
            Err(v) if v.oracle == "rewind_within_pruning_depth_succeeds" || v.oracle == "sync_recovers_from_scan_error" => {
                ctx.probe("rewind_refused");
                return Ok(());
            }
            Err(v) => return ctx.report(v),
        };
        ctx.time("cpu_us_final_sync", t_sync.elapsed().as_micros() as u64);
        if done {
            let tip = s.chain.tip();
            let all = (s.cfg.base_height + 1..=tip).all(|h| s.scanned.contains(&h));
            ctx.oracle("sync_complete_means_everything_scanned");
            if !all {
                let missing: Vec<u32> = (s.cfg.base_height + 1..=tip).filter(|h| !s.scanned.contains(h)).take(5).collect();
                viol(ctx, self.owns("liveness"), Violation::new("sync_complete_means_everything_scanned", format!("nothing left to suggest but blocks {:?}.. were never scanned", missing)))?;
            } else {
                ctx.probe("synced_to_tip");
                let fs = {
                    use zcash_client_backend::data_api::WalletRead;
                    let d = db!(s);
                    d.block_fully_scanned().map(|m| m.map(|m| u32::from(m.block_height())))
                };
                if let Ok(fs) = fs {
                    if fs != Some(tip) {
                        viol(ctx, self.owns("liveness"), Violation::new("fully_scanned_equals_tip", format!("block_fully_scanned = {fs:?}, tip = {tip}")))?;
                    }
                }
            }
            self.after_op(&mut s, ch, ctx, true)?;
            let t = std::time::Instant::now();
            if self.prop == "C01" || ch.chance("differential", 1, 3) {
                s.check_differential(ctx, self.owns("differential"))?;
            }
            ctx.time("cpu_us_oracle_differential", t.elapsed().as_micros() as u64);
        }
        ctx.time("final_chain_height", (s.chain.tip() - s.cfg.base_height) as u64);
        Ok(())
    }
    fn runs(&self, tier: Tier) -> u64 {
        match tier {
            Tier::Quick => 1400,
            Tier::Thorough => 24_000,
        }
    }
    fn budget_s(&self, tier: Tier) -> u64 {
        match tier {
            Tier::Quick => 130,
            Tier::Thorough => 1500,
        }
    }
    fn rule(&self) -> &'static str {
        "one run = one seeded wallet history (chain growth, honest sync steps from either end, arbitrary-order scans with repeats, forks with re-mined transactions, rewinds, restarts, tip updates, failing block sources, stale-branch blocks, SQLite interrupts) on a real SQLite wallet, followed by a fault-free sync to completion; non-trivial = a fault fired or a reach probe was hit; distinct = distinct hash of (configuration class, operation kinds, outcomes, fault kinds, probes)"
    }
    fn components(&self) -> serde_json::Value {
        json!({"zcash_client_sqlite wallet (all SQL, shardtree, bundled SQLite) on a real file": "real",
               "zcash_client_backend scanning, trial decryption, put_blocks, scan queue": "real",
               "compact-block source (lightwalletd)": "stub (SimSource over SimChain)",
               "chain, miner, reorgs": "stub (SimChain; real note encryption through sapling-crypto / orchard)",
               "batch runner thread pool": "real rayon (results are order-independent by construction; owned by the simulator in the C05 check)",
               "wall clock / wallet RNG": "simulator-owned (SimClock, seeded ChaCha)"})
    }
    fn assumptions(&self) -> Vec<&'static str> {
        vec![
            "the client never scans blocks of a new branch while the wallet still holds blocks of the abandoned one (it rewinds first, as real clients do)",
            "prior chain states handed to scan_cached_blocks are the true frontiers of the simulated chain",
            "while transactions orphaned by a rewind are within 40 blocks of the height at which the wallet saw them, balances are compared with an envelope instead of an exact value",
            "the file system below SQLite is real (tmpfs); sector-level torn writes are not injected",
            "a rewind that the wallet refuses (RequestedRewindInvalid) ends the run without a verdict",
        ]
    }
    fn expected_probes(&self) -> Vec<&'static str> {
        vec!["spend_scanned_before_receipt", "spend_and_receipt_same_batch", "rewind_across_spend", "rewind_across_receipt", "orphan_tx_live", "orphan_tx_expired", "orphan_tx_remined", "truncate_height_lower_than_requested", "rescan_idempotent_hit", "synced_to_tip", "differential_compared", "checkpoints_over_100", "batch_longer_than_nullifier_retention", "checkpoint_on_empty_boundary_block", "retained_boundary_survived_pruning"]
    }
    fn fault_kinds(&self) -> Vec<&'static str> {
        vec!["reorg", "restart", "blocksource_error@k", "blocksource_stale_fork", "sql_interrupt@step"]
    }
    fn time_note(&self) -> &'static str {
        "simulated time = blocks mined / scanned (the chain is the clock)"
    }
}
