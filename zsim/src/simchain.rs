//! `SimChain`: a forkable chain of compact blocks assembled by the harness itself (real note
//! encryption through the external crypto crates), with ground truth for every output and spend
//! and the true note-commitment frontier of every pool after every block.

use std::collections::{BTreeMap, HashMap};
use std::sync::{Arc, Mutex, OnceLock};

use incrementalmerkletree::frontier::{Frontier, NonEmptyFrontier};
use incrementalmerkletree::Position;
use orchard::note::{ExtractedNoteCommitment, Note as OrchardNote, NoteVersion, Nullifier as OrchardNf, RandomSeed, Rho};
use orchard::note_encryption::{IronwoodDomain, IronwoodNoteEncryption, OrchardDomain, OrchardNoteEncryption};
use orchard::tree::MerkleHashOrchard;
use sapling::note_encryption::{sapling_note_encryption, SaplingDomain};
use zcash_client_backend::data_api::chain::{error::Error as ChainError, BlockSource, ChainState};
use zcash_client_backend::proto::compact_formats::{self as cf, CompactBlock, CompactOrchardAction, CompactSaplingOutput, CompactSaplingSpend, CompactTx};
use zcash_keys::keys::{UnifiedFullViewingKey, UnifiedSpendingKey};
use zcash_note_encryption::Domain;
use zcash_primitives::block::BlockHash;
use zcash_protocol::consensus::BlockHeight;
use zcash_protocol::local_consensus::LocalNetwork;
use zip32::Scope;

use crate::choices::{mix, SubRng};

#[derive(Clone, Copy, PartialEq, Eq, Hash, Debug, PartialOrd, Ord)]
pub enum Pool {
    Sapling = 0,
    Orchard = 1,
    Ironwood = 2,
}
pub const POOLS: [Pool; 3] = [Pool::Sapling, Pool::Orchard, Pool::Ironwood];
impl Pool {
    pub fn name(self) -> &'static str {
        match self {
            Pool::Sapling => "sapling",
            Pool::Orchard => "orchard",
            Pool::Ironwood => "ironwood",
        }
    }
    pub fn i(self) -> usize {
        self as usize
    }
}

pub type SapFrontier = Frontier<sapling::Node, 32>;
pub type OrchFrontier = Frontier<MerkleHashOrchard, 32>;

#[derive(Clone, Debug, PartialEq)]
pub struct Frontiers {
    pub sap: SapFrontier,
    pub orch: OrchFrontier,
    pub iron: OrchFrontier,
}
impl Frontiers {
    pub fn empty() -> Self {
        Frontiers { sap: Frontier::empty(), orch: Frontier::empty(), iron: Frontier::empty() }
    }
    pub fn size(&self, p: Pool) -> u64 {
        match p {
            Pool::Sapling => self.sap.tree_size(),
            Pool::Orchard => self.orch.tree_size(),
            Pool::Ironwood => self.iron.tree_size(),
        }
    }
    pub fn root_bytes(&self, p: Pool) -> [u8; 32] {
        match p {
            Pool::Sapling => self.sap.root().to_bytes(),
            Pool::Orchard => self.orch.root().to_bytes(),
            Pool::Ironwood => self.iron.root().to_bytes(),
        }
    }
}

/// Keys of one wallet account (derived exactly as `create_account` derives them).
pub struct AcctKeys {
    pub usk: UnifiedSpendingKey,
    pub ufvk: UnifiedFullViewingKey,
    pub sap_dfvk: sapling::zip32::DiversifiableFullViewingKey,
    pub orch_fvk: orchard::keys::FullViewingKey,
}

pub fn sim_seed() -> Vec<u8> {
    (0u8..32).map(|i| i.wrapping_mul(7).wrapping_add(3)).collect()
}

type KeyCache = Mutex<HashMap<(u64, u32), Arc<AcctKeys>>>;
static KEYS: OnceLock<KeyCache> = OnceLock::new();

fn net_key(net: &LocalNetwork) -> u64 {
    // the coin type / HRPs are the same for every LocalNetwork (regtest); keys do not depend on heights
    let _ = net;
    0
}

pub fn acct_keys(net: &LocalNetwork, idx: u32) -> Arc<AcctKeys> {
    let cache = KEYS.get_or_init(|| Mutex::new(HashMap::new()));
    if let Some(k) = cache.lock().unwrap().get(&(net_key(net), idx)) {
        return k.clone();
    }
    let usk = UnifiedSpendingKey::from_seed(net, &sim_seed(), zip32::AccountId::try_from(idx).unwrap()).expect("usk");
    let ufvk = usk.to_unified_full_viewing_key();
    let sap_dfvk = usk.sapling().to_diversifiable_full_viewing_key();
    let orch_fvk = orchard::keys::FullViewingKey::from(usk.orchard());
    let k = Arc::new(AcctKeys { usk, ufvk, sap_dfvk, orch_fvk });
    cache.lock().unwrap().insert((net_key(net), idx), k.clone());
    k
}

/// Who an output is addressed to.
#[derive(Clone, Copy, Debug, PartialEq, Eq)]
pub enum Dest {
    Own(usize, Scope),
    Foreign,
}

/// A position-independent output: the compact bytes plus what is needed to compute its nullifier
/// once its position is known.
#[derive(Clone)]
pub struct OutTpl {
    pub pool: Pool,
    pub idx: usize,
    pub dest: Dest,
    pub value: u64,
    pub cm: [u8; 32],
    sap_note: Option<sapling::Note>,
    fixed_nf: Option<[u8; 32]>,
}

#[derive(Clone)]
pub struct TxTpl {
    pub ctx: CompactTx,
    pub outs: Vec<OutTpl>,
    /// nullifiers revealed (including dummy ones)
    pub nfs: Vec<(Pool, [u8; 32])>,
}

#[derive(Clone, Debug)]
pub struct OutTruth {
    pub txid: [u8; 32],
    pub pool: Pool,
    pub idx: usize,
    pub acct: usize,
    pub scope: Scope,
    pub value: u64,
    pub nf: [u8; 32],
    pub position: u64,
    pub height: u32,
    pub tx_index: usize,
}

#[derive(Clone, Debug)]
pub struct SpendTruth {
    pub txid: [u8; 32],
    pub pool: Pool,
    pub nf: [u8; 32],
    pub height: u32,
}

#[derive(Clone)]
pub struct SimBlock {
    pub height: u32,
    pub hash: [u8; 32],
    pub prev: [u8; 32],
    pub cb: CompactBlock,
    pub txs: Vec<TxTpl>,
    /// own outputs (addressed to a wallet account) in this block
    pub outs: Vec<OutTruth>,
    /// every nullifier revealed in this block
    pub spends: Vec<SpendTruth>,
    /// every commitment appended per pool, in order
    pub cms: [Vec<[u8; 32]>; 3],
    pub after: Frontiers,
}

pub struct SimChain {
    pub net: LocalNetwork,
    pub n_accounts: usize,
    /// height of the block *before* the first simulated block (wallet birthday - 1)
    pub base_height: u32,
    pub base_hash: [u8; 32],
    /// percentage of generated blocks that carry a full serialized header (0 = none)
    pub header_mode: u8,
    pub base: Frontiers,
    pub blocks: Vec<SimBlock>,
    /// transactions dropped by forks, eligible for re-mining on the new branch
    pub orphan_pool: Vec<TxTpl>,
    pub gen: u64,
}

fn append_sap(f: &mut SapFrontier, cm: &[u8; 32]) {
    let node = sapling::Node::from_cmu(&Option::from(sapling::note::ExtractedNoteCommitment::from_bytes(cm)).expect("canonical cmu"));
    assert!(f.append(node));
}
fn append_orch(f: &mut OrchFrontier, cm: &[u8; 32]) {
    let node = MerkleHashOrchard::from_cmx(&Option::from(ExtractedNoteCommitment::from_bytes(cm)).expect("canonical cmx"));
    assert!(f.append(node));
}

/// A frontier of the given size with fabricated (random but well-formed) leaf and ommers.
pub fn fab_sap_frontier(size: u64, r: &mut SubRng) -> SapFrontier {
    if size == 0 {
        return Frontier::empty();
    }
    let pos = Position::from(size - 1);
    let n = pos.past_ommer_count() as usize;
    let rnd = |r: &mut SubRng| loop {
        let mut b = r.bytes32();
        b[31] &= 0x3f;
        if let Some(c) = Option::from(sapling::note::ExtractedNoteCommitment::from_bytes(&b)) {
            break sapling::Node::from_cmu(&c);
        }
    };
    let leaf = rnd(r);
    let ommers = (0..n).map(|_| rnd(r)).collect();
    Frontier::try_from(NonEmptyFrontier::from_parts(pos, leaf, ommers).expect("frontier parts")).expect("frontier depth")
}
pub fn fab_orch_frontier(size: u64, r: &mut SubRng) -> OrchFrontier {
    if size == 0 {
        return Frontier::empty();
    }
    let pos = Position::from(size - 1);
    let n = pos.past_ommer_count() as usize;
    let rnd = |r: &mut SubRng| loop {
        let mut b = r.bytes32();
        b[31] &= 0x3f;
        if let Some(c) = Option::from(ExtractedNoteCommitment::from_bytes(&b)) {
            break MerkleHashOrchard::from_cmx(&c);
        }
    };
    let leaf = rnd(r);
    let ommers = (0..n).map(|_| rnd(r)).collect();
    Frontier::try_from(NonEmptyFrontier::from_parts(pos, leaf, ommers).expect("frontier parts")).expect("frontier depth")
}

fn random_orchard_nf(r: &mut SubRng) -> OrchardNf {
    loop {
        let mut b = r.bytes32();
        b[31] &= 0x3f;
        if let Some(nf) = Option::from(OrchardNf::from_bytes(&b)) {
            break nf;
        }
    }
}

/// Foreign recipients come from a small fixed pool (deriving a fresh key per output is the most
/// expensive part of block generation and adds nothing: the wallet cannot tell foreign keys apart).
static FOREIGN: OnceLock<(Vec<sapling::PaymentAddress>, Vec<orchard::Address>)> = OnceLock::new();
fn foreign_pool() -> &'static (Vec<sapling::PaymentAddress>, Vec<orchard::Address>) {
    FOREIGN.get_or_init(|| {
        let mut r = SubRng::new(0xF0E1);
        ((0..8).map(|_| foreign_sapling_addr_fresh(&mut r)).collect(), (0..8).map(|_| foreign_orchard_addr_fresh(&mut r)).collect())
    })
}
fn foreign_orchard_addr(r: &mut SubRng) -> orchard::Address {
    foreign_pool().1[r.below(8) as usize]
}
fn foreign_sapling_addr(r: &mut SubRng) -> sapling::PaymentAddress {
    foreign_pool().0[r.below(8) as usize]
}

fn foreign_orchard_addr_fresh(r: &mut SubRng) -> orchard::Address {
    loop {
        if let Some(sk) = Option::from(orchard::keys::SpendingKey::from_bytes(r.bytes32())) {
            let sk: orchard::keys::SpendingKey = sk;
            break orchard::keys::FullViewingKey::from(&sk).address_at(0u32, Scope::External);
        }
    }
}

fn foreign_sapling_addr_fresh(r: &mut SubRng) -> sapling::PaymentAddress {
    let esk = sapling::zip32::ExtendedSpendingKey::master(&r.bytes32());
    esk.to_diversifiable_full_viewing_key().default_address().1
}

/// One Orchard-shaped compact action revealing `nf_old` and creating a note for `recipient`.
fn orchard_action(version: NoteVersion, nf_old: OrchardNf, recipient: orchard::Address, value: u64, r: &mut SubRng) -> (CompactOrchardAction, OrchardNote) {
    let rho = Option::<Rho>::from(Rho::from_bytes(&nf_old.to_bytes())).expect("rho");
    let rseed = loop {
        if let Some(s) = Option::from(RandomSeed::from_bytes(r.bytes32(), &rho)) {
            break s;
        }
    };
    let note: OrchardNote = Option::from(OrchardNote::from_parts(recipient, orchard::value::NoteValue::from_raw(value), rho, rseed, version)).expect("note");
    let cmx = ExtractedNoteCommitment::from(note.commitment());
    let (epk, ct): ([u8; 32], Vec<u8>) = match version {
        NoteVersion::V3 => {
            let enc = IronwoodNoteEncryption::new(None, note, [0u8; 512]);
            (IronwoodDomain::epk_bytes(enc.epk()).0, enc.encrypt_note_plaintext()[..52].to_vec())
        }
        _ => {
            let enc = OrchardNoteEncryption::new(None, note, [0u8; 512]);
            (OrchardDomain::epk_bytes(enc.epk()).0, enc.encrypt_note_plaintext()[..52].to_vec())
        }
    };
    (CompactOrchardAction { nullifier: nf_old.to_bytes().to_vec(), cmx: cmx.to_bytes().to_vec(), ephemeral_key: epk.to_vec(), ciphertext: ct }, note)
}

fn sapling_output(recipient: sapling::PaymentAddress, value: u64, r: &mut SubRng) -> (CompactSaplingOutput, sapling::Note) {
    let rseed = sapling::Rseed::AfterZip212(r.bytes32());
    let note = sapling::Note::from_parts(recipient, sapling::value::NoteValue::from_raw(value), rseed);
    let mut memo = [0u8; 512];
    memo[0] = 0xf6;
    let enc = sapling_note_encryption(None, note.clone(), memo, r);
    let cmu = note.cmu().to_bytes().to_vec();
    let epk = SaplingDomain::epk_bytes(enc.epk()).0.to_vec();
    let ct = enc.encrypt_note_plaintext();
    (CompactSaplingOutput { cmu, ephemeral_key: epk, ciphertext: ct[..52].to_vec() }, note)
}

/// What a generated transaction should contain.
#[derive(Clone, Debug, Default)]
pub struct TxSpec {
    /// (pool, destination, value)
    pub outs: Vec<(Pool, Dest, u64)>,
    /// (pool, nullifier to reveal) — nullifiers of own notes, or None for a foreign/random one
    pub spends: Vec<(Pool, Option<[u8; 32]>)>,
}

impl SimChain {
    pub fn new(net: LocalNetwork, n_accounts: usize, base_height: u32, base: Frontiers, seed: u64) -> Self {
        let mut r = SubRng::new(mix(seed, 0xBA5E));
        SimChain { net, n_accounts, base_height, base_hash: r.bytes32(), base, blocks: vec![], orphan_pool: vec![], gen: seed, header_mode: 0 }
    }
    pub fn tip(&self) -> u32 {
        self.base_height + self.blocks.len() as u32
    }
    pub fn block(&self, h: u32) -> Option<&SimBlock> {
        if h <= self.base_height {
            return None;
        }
        self.blocks.get((h - self.base_height - 1) as usize)
    }
    pub fn hash_at(&self, h: u32) -> Option<[u8; 32]> {
        if h == self.base_height {
            Some(self.base_hash)
        } else {
            self.block(h).map(|b| b.hash)
        }
    }
    pub fn frontiers_at(&self, h: u32) -> Option<&Frontiers> {
        if h == self.base_height {
            Some(&self.base)
        } else {
            self.block(h).map(|b| &b.after)
        }
    }
    pub fn chain_state_at(&self, h: u32) -> Option<ChainState> {
        let f = self.frontiers_at(h)?;
        Some(ChainState::new(BlockHeight::from_u32(h), BlockHash(self.hash_at(h)?), f.sap.clone(), f.orch.clone(), f.iron.clone()))
    }
    /// The roots of the 2^16-leaf subtrees of pool `p` completed by the current chain's blocks up to `upto`, in index
    /// order: (subtree index, height of the completing block, root). Computed from the generator's own frontiers by
    /// replaying the completing block's commitments one at a time (what a server derives from the full chain).
    pub fn completed_subtrees(&self, p: Pool, upto: u32) -> Vec<(u64, u32, [u8; 32])> {
        use incrementalmerkletree::Level;
        let mut out = vec![];
        let mut prev = self.base.clone();
        for b in &self.blocks {
            if b.height > upto {
                break;
            }
            let before = prev.size(p);
            let after = b.after.size(p);
            // does a multiple of 2^16 fall into (before, after]?
            let mut next_end = (before >> 16) + 1 << 16;
            if next_end <= after && before < next_end {
                let mut sap = prev.sap.clone();
                let mut orch = if p == Pool::Ironwood { prev.iron.clone() } else { prev.orch.clone() };
                let mut size = before;
                for cm in &b.cms[p.i()] {
                    match p {
                        Pool::Sapling => append_sap(&mut sap, cm),
                        _ => append_orch(&mut orch, cm),
                    }
                    size += 1;
                    if size == next_end {
                        let root: [u8; 32] = match p {
                            Pool::Sapling => sap.value().expect("non-empty").root(Some(Level::from(16))).to_bytes(),
                            _ => orch.value().expect("non-empty").root(Some(Level::from(16))).to_bytes(),
                        };
                        out.push(((next_end >> 16) - 1, b.height, root));
                        next_end += 1 << 16;
                    }
                }
            }
            prev = b.after.clone();
        }
        out
    }
    pub fn pool_active(&self, p: Pool, h: u32) -> bool {
        let act = match p {
            Pool::Sapling => self.net.sapling,
            Pool::Orchard => self.net.nu5,
            Pool::Ironwood => self.net.nu6_3,
        };
        act.map(|a| h >= u32::from(a)).unwrap_or(false)
    }

    /// Build a position-independent transaction from a spec.
    pub fn make_tx(&self, spec: &TxSpec, r: &mut SubRng) -> TxTpl {
        let mut ctx = CompactTx { txid: r.bytes32().to_vec(), ..Default::default() };
        let mut outs = vec![];
        let mut nfs = vec![];
        // Sapling
        for (p, nf) in spec.spends.iter().filter(|(p, _)| *p == Pool::Sapling) {
            let nf = nf.unwrap_or_else(|| r.bytes32());
            ctx.spends.push(CompactSaplingSpend { nf: nf.to_vec() });
            nfs.push((*p, nf));
        }
        for (_, dest, value) in spec.outs.iter().filter(|(p, _, _)| *p == Pool::Sapling) {
            let recipient = match dest {
                Dest::Own(a, scope) => {
                    let k = acct_keys(&self.net, *a as u32);
                    match scope {
                        Scope::External => k.sap_dfvk.default_address().1,
                        Scope::Internal => k.sap_dfvk.change_address().1,
                    }
                }
                Dest::Foreign => foreign_sapling_addr(r),
            };
            let (co, note) = sapling_output(recipient, *value, r);
            let mut cm = [0u8; 32];
            cm.copy_from_slice(&co.cmu);
            outs.push(OutTpl { pool: Pool::Sapling, idx: ctx.outputs.len(), dest: *dest, value: *value, cm, sap_note: Some(note), fixed_nf: None });
            ctx.outputs.push(co);
        }
        // Orchard-shaped pools
        for pool in [Pool::Orchard, Pool::Ironwood] {
            let sp: Vec<Option<[u8; 32]>> = spec.spends.iter().filter(|(p, _)| *p == pool).map(|(_, n)| *n).collect();
            let ou: Vec<(Dest, u64)> = spec.outs.iter().filter(|(p, _, _)| *p == pool).map(|(_, d, v)| (*d, *v)).collect();
            let n = sp.len().max(ou.len());
            for i in 0..n {
                let nf_old = match sp.get(i) {
                    Some(Some(nf)) => Option::from(OrchardNf::from_bytes(nf)).expect("own nullifier is canonical"),
                    _ => random_orchard_nf(r),
                };
                let (dest, value) = ou.get(i).copied().unwrap_or((Dest::Foreign, 0));
                let recipient = match dest {
                    Dest::Own(a, scope) => acct_keys(&self.net, a as u32).orch_fvk.address_at(0u32, scope),
                    Dest::Foreign => foreign_orchard_addr(r),
                };
                let ver = if pool == Pool::Ironwood { NoteVersion::V3 } else { NoteVersion::V2 };
                let (act, note) = orchard_action(ver, nf_old, recipient, value, r);
                let mut cm = [0u8; 32];
                cm.copy_from_slice(&act.cmx);
                let fixed_nf = match dest {
                    Dest::Own(a, _) => Some(note.nullifier(&acct_keys(&self.net, a as u32).orch_fvk).to_bytes()),
                    Dest::Foreign => None,
                };
                let list = if pool == Pool::Ironwood { &mut ctx.ironwood_actions } else { &mut ctx.actions };
                outs.push(OutTpl { pool, idx: list.len(), dest, value, cm, sap_note: None, fixed_nf });
                list.push(act);
                nfs.push((pool, nf_old.to_bytes()));
            }
        }
        TxTpl { ctx, outs, nfs }
    }

    /// Append a block containing the given transactions.
    pub fn push_block(&mut self, txs: Vec<TxTpl>, r: &mut SubRng) {
        let height = self.tip() + 1;
        let prev = self.hash_at(height - 1).unwrap();
        let mut after = self.frontiers_at(height - 1).unwrap().clone();
        let mut hash = r.bytes32();
        let mut cb = CompactBlock { height: height as u64, hash: hash.to_vec(), prev_hash: prev.to_vec(), time: 1_700_000_000 + height, ..Default::default() };
        if self.header_mode > 0 && r.below(100) < self.header_mode as u64 {
            // a block that carries its full serialized header (lightwalletd's other encoding): the block's
            // identity and parent are then the header's; the redundant fields are empty or say the same
            let mut solution = vec![0u8; 1344];
            r.fill(&mut solution);
            let hdr = zcash_primitives::block::BlockHeaderData {
                version: 4,
                prev_block: zcash_primitives::block::BlockHash(prev),
                merkle_root: r.bytes32(),
                final_sapling_root: r.bytes32(),
                time: 1_700_000_000 + height,
                bits: 0x1f07ffff,
                nonce: r.bytes32(),
                solution,
            }
            .freeze()
            .expect("header");
            let mut bytes = vec![];
            hdr.write(&mut bytes).expect("header bytes");
            hash = hdr.hash().0;
            cb.header = bytes;
            if r.below(2) == 0 {
                cb.hash = vec![];
                cb.prev_hash = vec![];
            } else {
                cb.hash = hash.to_vec();
            }
        }
        let mut outs = vec![];
        let mut spends = vec![];
        let mut cms: [Vec<[u8; 32]>; 3] = [vec![], vec![], vec![]];
        for (ti, t) in txs.iter().enumerate() {
            let mut ctx = t.ctx.clone();
            ctx.index = ti as u64;
            let mut txid = [0u8; 32];
            txid.copy_from_slice(&ctx.txid);
            for (p, nf) in &t.nfs {
                spends.push(SpendTruth { txid, pool: *p, nf: *nf, height });
            }
            for o in &t.outs {
                let position = after.size(o.pool);
                match o.pool {
                    Pool::Sapling => append_sap(&mut after.sap, &o.cm),
                    Pool::Orchard => append_orch(&mut after.orch, &o.cm),
                    Pool::Ironwood => append_orch(&mut after.iron, &o.cm),
                }
                cms[o.pool.i()].push(o.cm);
                if let Dest::Own(a, scope) = o.dest {
                    let nf = match (&o.sap_note, o.fixed_nf) {
                        (Some(note), _) => note.nf(&acct_keys(&self.net, a as u32).sap_dfvk.to_nk(scope), position).0,
                        (None, Some(nf)) => nf,
                        _ => unreachable!(),
                    };
                    outs.push(OutTruth { txid, pool: o.pool, idx: o.idx, acct: a, scope, value: o.value, nf, position, height, tx_index: ti });
                }
            }
            cb.vtx.push(ctx);
        }
        cb.chain_metadata = Some(cf::ChainMetadata {
            sapling_commitment_tree_size: after.size(Pool::Sapling) as u32,
            orchard_commitment_tree_size: after.size(Pool::Orchard) as u32,
            ironwood_commitment_tree_size: after.size(Pool::Ironwood) as u32,
        });
        self.blocks.push(SimBlock { height, hash, prev, cb, txs, outs, spends, cms, after });
    }

    /// Abandon everything above `h`; the dropped transactions become candidates for re-mining.
    pub fn fork(&mut self, h: u32) -> Vec<SimBlock> {
        let keep = (h.saturating_sub(self.base_height)) as usize;
        let dropped: Vec<SimBlock> = self.blocks.drain(keep.min(self.blocks.len())..).collect();
        // A transaction can only be mined again on the new branch if everything it spends survives the
        // fork: a spend of a note created on the abandoned branch is anchored in abandoned blocks.
        let gone: std::collections::BTreeSet<(Pool, [u8; 32])> = dropped.iter().flat_map(|b| b.outs.iter().map(|o| (o.pool, o.nf))).collect();
        self.orphan_pool.retain(|t| !t.nfs.iter().any(|k| gone.contains(k)));
        for b in &dropped {
            for t in &b.txs {
                if !t.nfs.iter().any(|k| gone.contains(k)) {
                    self.orphan_pool.push(t.clone());
                }
            }
        }
        self.gen = mix(self.gen, h as u64 + 1);
        dropped
    }

    /// Own notes on the current chain keyed by (pool, nullifier), and all revealed nullifiers.
    pub fn ledger(&self) -> (BTreeMap<(Pool, [u8; 32]), OutTruth>, BTreeMap<(Pool, [u8; 32]), SpendTruth>) {
        let mut notes = BTreeMap::new();
        let mut spent = BTreeMap::new();
        for b in &self.blocks {
            for o in &b.outs {
                notes.insert((o.pool, o.nf), o.clone());
            }
            for s in &b.spends {
                spent.entry((s.pool, s.nf)).or_insert_with(|| s.clone());
            }
        }
        (notes, spent)
    }

    /// Own notes unspent as of the current tip (candidates for generated spends).
    pub fn unspent_notes(&self) -> Vec<OutTruth> {
        let (notes, spent) = self.ledger();
        notes.into_iter().filter(|(k, _)| !spent.contains_key(k)).map(|(_, v)| v).collect()
    }
}

// ---------------------------------------------------------------- block source

#[derive(Debug, Clone)]
pub struct SourceError(pub String);
impl std::fmt::Display for SourceError {
    fn fmt(&self, f: &mut std::fmt::Formatter<'_>) -> std::fmt::Result {
        write!(f, "{}", self.0)
    }
}
impl std::error::Error for SourceError {}

/// Serves blocks of a chain (or of explicitly supplied blocks) with optional faults.
pub struct SimSource<'a> {
    pub chain: &'a SimChain,
    /// blocks that override the chain's (stale branch / corrupted copies), by height
    pub overrides: BTreeMap<u32, CompactBlock>,
    /// fail when about to serve the k-th block of a `with_blocks` call (counted per call)
    pub fail_at: Option<usize>,
    /// fail only in the n-th `with_blocks` call (0-based); None = every call
    pub fail_in_call: Option<usize>,
    pub calls: std::cell::Cell<usize>,
    pub served: std::cell::Cell<usize>,
    pub fired: std::cell::Cell<bool>,
}

impl<'a> SimSource<'a> {
    pub fn new(chain: &'a SimChain) -> Self {
        SimSource { chain, overrides: BTreeMap::new(), fail_at: None, fail_in_call: None, calls: 0.into(), served: 0.into(), fired: false.into() }
    }
}

impl BlockSource for SimSource<'_> {
    type Error = SourceError;

    fn with_blocks<F, WalletErrT>(&self, from_height: Option<BlockHeight>, limit: Option<usize>, mut with_block: F) -> Result<(), ChainError<WalletErrT, Self::Error>>
    where
        F: FnMut(CompactBlock) -> Result<(), ChainError<WalletErrT, Self::Error>>,
    {
        let call = self.calls.get();
        self.calls.set(call + 1);
        let from = from_height.map(u32::from).unwrap_or(self.chain.base_height + 1);
        let mut h = from;
        let mut n = 0usize;
        loop {
            if let Some(l) = limit {
                if n >= l {
                    break;
                }
            }
            let cb = match self.overrides.get(&h) {
                Some(cb) => cb.clone(),
                None => match self.chain.block(h) {
                    Some(b) => b.cb.clone(),
                    None => break,
                },
            };
            if self.fail_at == Some(n) && self.fail_in_call.map(|c| c == call).unwrap_or(true) {
                self.fired.set(true);
                return Err(ChainError::BlockSource(SourceError(format!("zsim: injected block source error before block {h}"))));
            }
            self.served.set(self.served.get() + 1);
            with_block(cb)?;
            h += 1;
            n += 1;
        }
        Ok(())
    }
}
