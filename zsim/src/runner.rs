//! Seeded search over simulated runs, minimisation, replay files, evidence.

use std::collections::{BTreeMap, BTreeSet};
use std::panic::{catch_unwind, AssertUnwindSafe};
use std::path::{Path, PathBuf};
use std::sync::atomic::{AtomicBool, AtomicU64, Ordering};
use std::sync::{Arc, Mutex};
use std::time::{Duration, Instant};

use serde_json::{json, Value};

use crate::choices::{self, mix, Choices, Ent};
use crate::sim::{KnownFinding, RunCtx, Scenario, Tier, Violation};

pub const DEFAULT_SEED: u64 = 20260926;

pub fn verif_dir() -> PathBuf {
    std::env::var("ZSIM_VERIF_DIR").map(PathBuf::from).unwrap_or_else(|_| PathBuf::from("/verif"))
}

pub fn load_known() -> Vec<KnownFinding> {
    let p = verif_dir().join("known_findings.json");
    let Ok(s) = std::fs::read_to_string(&p) else { return vec![] };
    let Ok(v) = serde_json::from_str::<Value>(&s) else {
        eprintln!("harness error: cannot parse {}", p.display());
        std::process::exit(2);
    };
    let mut out = vec![];
    for f in v.get("findings").and_then(|x| x.as_array()).cloned().unwrap_or_default() {
        out.push(KnownFinding {
            property: f["property"].as_str().unwrap_or("").to_string(),
            key: f["key"].as_str().unwrap_or("").to_string(),
            what: f["what"].as_str().unwrap_or("").to_string(),
        });
    }
    out
}

thread_local! {
    static PANIC_MSG: std::cell::RefCell<Option<String>> = const { std::cell::RefCell::new(None) };
    pub static QUIET_PANICS: std::cell::Cell<bool> = const { std::cell::Cell::new(false) };
}

pub fn install_panic_hook() {
    let default = std::panic::take_hook();
    std::panic::set_hook(Box::new(move |info| {
        let quiet = QUIET_PANICS.with(|q| q.get());
        let loc = info.location().map(|l| format!("{}:{}", l.file(), l.line())).unwrap_or_default();
        let msg = if let Some(s) = info.payload().downcast_ref::<&str>() {
            s.to_string()
        } else if let Some(s) = info.payload().downcast_ref::<String>() {
            s.clone()
        } else {
            "<non-string panic>".to_string()
        };
        PANIC_MSG.with(|p| *p.borrow_mut() = Some(format!("{msg} @ {loc}")));
        if !quiet {
            default(info);
        }
    }));
}

pub fn take_panic_msg() -> Option<String> {
    PANIC_MSG.with(|p| p.borrow_mut().take())
}

/// Run `f`, turning a panic into Err(message with location). Panic output is suppressed.
pub fn catch<R>(f: impl FnOnce() -> R) -> Result<R, String> {
    let prev = QUIET_PANICS.with(|q| q.replace(true));
    let r = catch_unwind(AssertUnwindSafe(f));
    QUIET_PANICS.with(|q| q.set(prev));
    match r {
        Ok(v) => Ok(v),
        Err(_) => Err(take_panic_msg().unwrap_or_else(|| "panic".into())),
    }
}

fn reseed_shim(seed: u64) -> bool {
    unsafe {
        let sym = libc::dlsym(libc::RTLD_DEFAULT, c"zsim_getrandom_reseed".as_ptr());
        if sym.is_null() {
            return false;
        }
        let f: extern "C" fn(u64) = std::mem::transmute(sym);
        f(seed);
        true
    }
}

pub fn shim_loaded() -> bool {
    unsafe { !libc::dlsym(libc::RTLD_DEFAULT, c"zsim_getrandom_reseed".as_ptr()).is_null() }
}

pub struct RunOutcome {
    pub ctx: RunCtx,
    pub rec: Vec<choices::Rec>,
    pub violation: Option<Violation>,
}

/// Execute one run on a freshly spawned OS thread (fresh thread-locals: hash seeds, hook
/// registries, shim stream).
pub fn execute(sc: &Arc<dyn Scenario>, known: &[KnownFinding], seed: u64, replay: Option<Vec<u64>>, verbose: bool) -> RunOutcome {
    let sc = sc.clone();
    let known = known.to_vec();
    let h = std::thread::Builder::new()
        .name("zsim-run".into())
        .stack_size(256 << 20)
        .spawn(move || {
            reseed_shim(seed);
            let mut ch = match replay {
                Some(v) => Choices::replay(seed, v),
                None => Choices::search(seed),
            };
            let mut ctx = RunCtx::new(sc.property(), known, verbose);
            let r = catch(|| sc.run(&mut ch, &mut ctx));
            let violation = match r {
                Ok(Ok(())) => None,
                Ok(Err(v)) => Some(v),
                Err(msg) => {
                    // a panic that the scenario did not attribute itself
                    let v = Violation::keyed("panic", format!("panic:{}", panic_site(&msg)), msg);
                    match ctx.report(v) {
                        Ok(()) => None,
                        Err(v) => Some(v),
                    }
                }
            };
            RunOutcome { ctx, rec: ch.rec, violation }
        })
        .expect("spawn run thread");
    h.join().expect("run thread must not die")
}

/// The file:line part of a captured panic message (stable across inputs).
pub fn panic_site(msg: &str) -> String {
    match msg.rfind(" @ ") {
        Some(i) => {
            let site = &msg[i + 3..];
            // strip registry / repo prefixes
            let site = site.rsplit_once("/src/").map(|(a, b)| {
                let krate = a.rsplit('/').next().unwrap_or("");
                format!("{krate}/src/{b}")
            }).unwrap_or_else(|| site.to_string());
            site
        }
        None => "unknown".into(),
    }
}

#[derive(Default)]
struct Agg {
    evaluations: u64,
    run_secs: f64,
    slowest: (f64, u64),
    nontrivial_shapes: BTreeSet<u64>,
    all_shapes: BTreeSet<u64>,
    fingerprints: BTreeSet<u64>,
    faults: BTreeMap<String, u64>,
    probes: BTreeMap<String, u64>,
    ops: BTreeMap<String, u64>,
    oracles: BTreeMap<String, u64>,
    simtime: BTreeMap<String, u64>,
    knobs: BTreeMap<String, BTreeSet<u64>>,
    states: BTreeSet<u64>,
    known_hits: BTreeMap<String, u64>,
    samples: Vec<Value>,
    violations: Vec<(u64, u64, Vec<choices::Rec>, Violation, Vec<String>, Value)>,
}

fn merge(a: &mut BTreeMap<String, u64>, b: &BTreeMap<String, u64>) {
    for (k, v) in b {
        *a.entry(k.clone()).or_default() += v;
    }
}

pub struct BatchOpts {
    pub tier: Tier,
    pub seed: u64,
    pub workers: usize,
    pub runs_override: Option<u64>,
    pub budget_override: Option<u64>,
    pub write_evidence: bool,
    pub minimise: bool,
}

pub fn run_seed(base: u64, prop: &str, scen: &str, idx: u64) -> u64 {
    mix(mix(base, choices::hash_str(prop) ^ choices::hash_str(scen).rotate_left(17)), idx)
}

/// Returns the process exit code.
pub fn run_batch(scs: &[Arc<dyn Scenario>], opts: &BatchOpts) -> i32 {
    let t0 = Instant::now();
    let known = load_known();
    let prop = scs[0].property();
    println!("zsim property={} tier={:?} VERIF_SEED={} workers={} shim={}", prop, opts.tier, opts.seed, opts.workers, shim_loaded());
    let mut per_scenario = vec![];
    let mut first_violation: Option<(Arc<dyn Scenario>, u64, u64, Vec<choices::Rec>, Violation, Vec<String>, Value)> = None;
    let mut total = Agg::default();
    for sc in scs {
        sc.prepare();
        let runs = opts.runs_override.unwrap_or_else(|| sc.runs(opts.tier));
        let budget = Duration::from_secs(opts.budget_override.unwrap_or_else(|| sc.budget_s(opts.tier)));
        let st = Instant::now();
        let next = Arc::new(AtomicU64::new(0));
        let stop = Arc::new(AtomicBool::new(false));
        let agg = Arc::new(Mutex::new(Agg::default()));
        let mut hs = vec![];
        for _ in 0..opts.workers {
            let sc = sc.clone();
            let next = next.clone();
            let stop = stop.clone();
            let agg = agg.clone();
            let known = known.clone();
            let base = opts.seed;
            hs.push(std::thread::spawn(move || loop {
                if stop.load(Ordering::Relaxed) {
                    break;
                }
                let i = next.fetch_add(1, Ordering::Relaxed);
                if i >= runs {
                    break;
                }
                if st.elapsed() > budget {
                    stop.store(true, Ordering::Relaxed);
                    break;
                }
                let seed = run_seed(base, sc.property(), sc.name(), i);
                let rt = Instant::now();
                let out = execute(&sc, &known, seed, None, false);
                let rt = rt.elapsed().as_secs_f64();
                let mut a = agg.lock().unwrap();
                a.run_secs += rt;
                if rt > a.slowest.0 {
                    a.slowest = (rt, i);
                }
                a.evaluations += 1;
                a.all_shapes.insert(out.ctx.shape);
                if out.ctx.nontrivial {
                    a.nontrivial_shapes.insert(out.ctx.shape);
                }
                a.fingerprints.insert(out.ctx.fp);
                merge(&mut a.faults, &out.ctx.faults);
                merge(&mut a.probes, &out.ctx.probes);
                merge(&mut a.ops, &out.ctx.ops);
                merge(&mut a.oracles, &out.ctx.oracles);
                merge(&mut a.simtime, &out.ctx.simtime);
                merge(&mut a.known_hits, &out.ctx.known_hits);
                for (k, v) in &out.ctx.knobs {
                    a.knobs.entry(k.clone()).or_default().extend(v.iter().copied());
                }
                a.states.extend(out.ctx.states.iter().copied());
                if i < 3 || (out.ctx.nontrivial && a.samples.len() < 6 && i % 7 == 0) {
                    let tr: Vec<&String> = out.ctx.trace.iter().take(40).collect();
                    a.samples.push(json!({"scenario": sc.name(), "run": i, "seed": seed, "config": out.ctx.config, "trace_head": tr, "events": out.ctx.seq}));
                }
                if let Some(v) = out.violation {
                    stop.store(true, Ordering::Relaxed);
                    a.violations.push((i, seed, out.rec, v, out.ctx.trace.clone(), out.ctx.config.clone()));
                }
            }));
        }
        for h in hs {
            h.join().unwrap();
        }
        let mut a = Arc::try_unwrap(agg).ok().unwrap().into_inner().unwrap();
        let secs = st.elapsed().as_secs_f64();
        println!(
            "  scenario {}: {} runs in {:.1}s (mean {:.2}s/run, slowest {:.1}s = run {}; {} distinct non-trivial shapes, {} faults fired){}",
            sc.name(),
            a.evaluations,
            secs,
            a.run_secs / a.evaluations.max(1) as f64,
            a.slowest.0,
            a.slowest.1,
            a.nontrivial_shapes.len(),
            a.faults.values().sum::<u64>(),
            if a.evaluations < runs && a.violations.is_empty() { " [budget cap reached]" } else { "" }
        );
        per_scenario.push(json!({"scenario": sc.name(), "runs": a.evaluations, "planned_runs": runs, "wall_s": secs,
            "distinct_nontrivial_shapes": a.nontrivial_shapes.len(), "distinct_fingerprints": a.fingerprints.len()}));
        a.violations.sort_by_key(|v| v.0);
        if first_violation.is_none() {
            if let Some((i, seed, rec, v, tr, cfg)) = a.violations.first().cloned() {
                first_violation = Some((sc.clone(), i, seed, rec, v, tr, cfg));
            }
        }
        // merge into total
        total.evaluations += a.evaluations;
        total.nontrivial_shapes.extend(a.nontrivial_shapes.iter().map(|s| s ^ choices::hash_str(sc.name())));
        total.all_shapes.extend(a.all_shapes.iter().map(|s| s ^ choices::hash_str(sc.name())));
        total.fingerprints.extend(a.fingerprints);
        merge(&mut total.faults, &a.faults);
        merge(&mut total.probes, &a.probes);
        merge(&mut total.ops, &a.ops);
        merge(&mut total.oracles, &a.oracles);
        merge(&mut total.simtime, &a.simtime);
        merge(&mut total.known_hits, &a.known_hits);
        for (k, v) in a.knobs {
            total.knobs.entry(k).or_default().extend(v);
        }
        total.states.extend(a.states);
        total.samples.extend(a.samples);
        if first_violation.is_some() {
            break;
        }
    }

    // violation handling
    let mut exit = 0;
    let mut violations = 0;
    let mut replay_path = None;
    if let Some((sc, idx, seed, rec, v, trace, cfg)) = first_violation {
        violations = 1;
        println!("  violation in scenario {} run {} seed {}: [{}] {}", sc.name(), idx, seed, v.oracle, v.detail);
        let ents = choices::ents_from_rec(&rec);
        let (ents, v, trace, cfg) = if opts.minimise {
            let budget = Duration::from_secs(match opts.tier { Tier::Quick => 60, Tier::Thorough => 300 });
            minimise(&sc, &known, seed, ents, v, trace, cfg, budget)
        } else {
            (ents, v, trace, cfg)
        };
        let path = write_replay(&sc, opts.seed, idx, seed, &ents, &v, &trace, &cfg);
        // confirm in a fresh process
        let confirmed = confirm_replay(&path);
        match confirmed {
            Some(true) => {
                println!("VIOLATION property={} replay={}", prop, path.display());
                exit = 1;
            }
            _ => {
                // try the unminimised recording
                let ents0 = choices::ents_from_rec(&rec);
                let path0 = write_replay(&sc, opts.seed, idx, seed, &ents0, &v, &trace, &cfg);
                if confirm_replay(&path0) == Some(true) {
                    println!("VIOLATION property={} replay={}", prop, path0.display());
                    exit = 1;
                } else {
                    eprintln!("harness error: violation did not reproduce from its replay file ({}); nondeterminism in the simulator", path0.display());
                    exit = 2;
                }
            }
        }
        replay_path = Some(path);
    }
    for (k, n) in &total.known_hits {
        let what = known.iter().find(|f| &f.key == k).map(|f| f.what.clone()).unwrap_or_default();
        println!("KNOWN-FINDING: property={} {} [{}] (hit {} times)", prop, what, k, n);
    }

    if opts.write_evidence {
        let wall = t0.elapsed().as_secs_f64();
        let expected: Vec<&str> = scs.iter().flat_map(|s| s.expected_probes()).collect();
        let probes_at_zero: Vec<&str> = expected.iter().copied().filter(|p| total.probes.get(*p).copied().unwrap_or(0) == 0).collect();
        let fk: Vec<&str> = scs.iter().flat_map(|s| s.fault_kinds()).collect();
        let never: Vec<&str> = fk.iter().copied().filter(|p| total.faults.get(*p).copied().unwrap_or(0) == 0).collect();
        let mut comps = serde_json::Map::new();
        for s in scs {
            if let Value::Object(m) = s.components() {
                for (k, v) in m {
                    comps.insert(k, v);
                }
            }
        }
        let mut assumptions: Vec<String> = vec![];
        for s in scs {
            for a in s.assumptions() {
                if !assumptions.iter().any(|x| x == a) {
                    assumptions.push(a.to_string());
                }
            }
        }
        let rules: Vec<String> = scs.iter().map(|s| format!("[{}] {}", s.name(), s.rule())).collect();
        let time_notes: Vec<String> = scs.iter().map(|s| s.time_note().to_string()).filter(|s| !s.is_empty()).collect();
        let mut samples = total.samples.clone();
        samples.truncate(8);
        if samples.is_empty() {
            samples.push(json!({"note": "no run completed"}));
        }
        let ev = json!({
            "property_id": prop,
            "tier": match opts.tier { Tier::Quick => "quick", Tier::Thorough => "thorough" },
            "seed": opts.seed,
            "level": scs[0].level(),
            "coverage": {
                "evaluations": total.evaluations,
                "distinct_nontrivial": total.nontrivial_shapes.len(),
                "rule": rules.join(" | "),
                "samples": samples,
                "distinct_shapes_all": total.all_shapes.len(),
                "distinct_fingerprints": total.fingerprints.len(),
                "runs_per_hour": if wall > 0.0 { (total.evaluations as f64 / wall * 3600.0) as u64 } else { 0 },
                "seeds": {"base": opts.seed, "count": total.evaluations, "derivation": "mix(mix(VERIF_SEED, hash(property)^rotl(hash(scenario),17)), run_index)"},
                "simulated_time": total.simtime,
                "simulated_time_note": time_notes,
                "operations": total.ops,
                "faults_fired": total.faults,
                "faults_configured_but_never_fired": never,
                "probes": total.probes,
                "probes_at_zero": probes_at_zero,
                "distinct_db_states": total.states.len(),
                "oracle_evaluations": total.oracles,
                "components": Value::Object(comps),
                "knobs_seen": total.knobs.iter().map(|(k, v)| (k.clone(), json!(v.iter().collect::<Vec<_>>()))).collect::<serde_json::Map<_, _>>(),
                "replay_exact": shim_loaded(),
                "known_findings_hit": total.known_hits,
                "scenarios": per_scenario,
                "replay": replay_path.as_ref().map(|p| p.display().to_string()),
            },
            "assumptions": assumptions,
            "wall_s": wall,
            "violations": violations,
        });
        let dir = verif_dir().join("evidence");
        let _ = std::fs::create_dir_all(&dir);
        let p = dir.join(format!("{prop}.json"));
        if let Err(e) = std::fs::write(&p, serde_json::to_string_pretty(&ev).unwrap() + "\n") {
            eprintln!("harness error: cannot write evidence {}: {e}", p.display());
            return 2;
        }
        if total.evaluations == 0 || total.nontrivial_shapes.len() < 2 {
            if exit == 0 {
                eprintln!("harness error: batch too small for evidence (evaluations={}, distinct_nontrivial={})", total.evaluations, total.nontrivial_shapes.len());
                return 2;
            }
        }
    }
    println!("  total: {} runs, {:.1}s, exit {}", total.evaluations, t0.elapsed().as_secs_f64(), exit);
    exit
}

fn write_replay(sc: &Arc<dyn Scenario>, base: u64, idx: u64, seed: u64, ents: &[Ent], v: &Violation, trace: &[String], cfg: &Value) -> PathBuf {
    let dir = verif_dir().join("replays");
    let _ = std::fs::create_dir_all(&dir);
    let vals = choices::ents_values(ents);
    let mut h = 0u64;
    for x in &vals {
        h = mix(h, *x);
    }
    let path = dir.join(format!("{}-{}-{}-{:016x}.json", sc.property(), sc.name(), seed, h));
    let tail: Vec<&String> = trace.iter().rev().take(120).collect::<Vec<_>>().into_iter().rev().collect();
    let j = json!({
        "property": sc.property(), "scenario": sc.name(), "verif_seed": base, "run": idx, "run_seed": seed,
        "config": cfg,
        "choices": choices::ents_to_json(ents),
        "violation": {"oracle": v.oracle, "detail": v.detail, "key": v.key},
        "trace": tail,
    });
    std::fs::write(&path, serde_json::to_string_pretty(&j).unwrap()).expect("write replay");
    path
}

fn confirm_replay(path: &Path) -> Option<bool> {
    let exe = std::env::current_exe().ok()?;
    let out = std::process::Command::new(exe).arg("replay").arg(path).arg("--quiet").output().ok()?;
    Some(out.status.code() == Some(1))
}

/// Replays a file; exit code 1 if the recorded violation class reproduces, 0 if no violation,
/// 3 if a different violation appears.
pub fn replay_file(scs: &[Arc<dyn Scenario>], path: &Path, quiet: bool) -> i32 {
    let s = match std::fs::read_to_string(path) {
        Ok(s) => s,
        Err(e) => {
            eprintln!("harness error: cannot read {}: {e}", path.display());
            return 2;
        }
    };
    let j: Value = match serde_json::from_str(&s) {
        Ok(j) => j,
        Err(e) => {
            eprintln!("harness error: cannot parse {}: {e}", path.display());
            return 2;
        }
    };
    let scen = j["scenario"].as_str().unwrap_or("");
    let Some(sc) = scs.iter().find(|s| s.name() == scen) else {
        eprintln!("harness error: unknown scenario {scen}");
        return 2;
    };
    sc.prepare();
    let seed = j["run_seed"].as_u64().unwrap_or(0);
    let vals = choices::ents_values(&choices::ents_from_json(&j["choices"]));
    let known = load_known();
    let out = execute(sc, &known, seed, Some(vals), !quiet);
    match out.violation {
        Some(v) => {
            let same = v.oracle == j["violation"]["oracle"].as_str().unwrap_or("");
            if !quiet {
                println!("replayed: [{}] {}", v.oracle, v.detail);
                println!("fingerprint {:016x}", out.ctx.fp);
            }
            if same {
                println!("VIOLATION property={} replay={}", sc.property(), path.display());
                1
            } else {
                println!("replay produced a different violation class: {}", v.oracle);
                3
            }
        }
        None => {
            if !quiet {
                println!("replay: no violation (fingerprint {:016x})", out.ctx.fp);
            }
            for (k, n) in &out.ctx.known_hits {
                println!("KNOWN-FINDING: property={} [{}] (hit {} times)", sc.property(), k, n);
            }
            0
        }
    }
}

/// Shrink the recorded choice sequence while the same violation class (oracle name) persists.
#[allow(clippy::too_many_arguments)]
fn minimise(
    sc: &Arc<dyn Scenario>,
    known: &[KnownFinding],
    seed: u64,
    mut ents: Vec<Ent>,
    mut v: Violation,
    mut trace: Vec<String>,
    mut cfg: Value,
    budget: Duration,
) -> (Vec<Ent>, Violation, Vec<String>, Value) {
    let t0 = Instant::now();
    let class = v.oracle.clone();
    let mut tries = 0u64;
    let mut attempt = |cand: &[Ent], tries: &mut u64| -> Option<(Vec<Ent>, Violation, Vec<String>, Value)> {
        *tries += 1;
        let out = execute(sc, known, seed, Some(choices::ents_values(cand)), false);
        match out.violation {
            Some(nv) if nv.oracle == class => Some((choices::ents_from_rec(&out.rec), nv, out.ctx.trace, out.ctx.config)),
            _ => None,
        }
    };
    // normalise: re-record from a replay of the full sequence so brackets match what replay produces
    if let Some((e, nv, tr, c)) = attempt(&ents, &mut tries) {
        ents = e;
        v = nv;
        trace = tr;
        cfg = c;
    } else {
        return (ents, v, trace, cfg);
    }
    let start_len = choices::ents_values(&ents).len();
    // pass 1: delete whole bracketed spans, back to front, repeat until no progress
    let mut progress = true;
    while progress && t0.elapsed() < budget {
        progress = false;
        let spans = top_spans(&ents);
        for (a, b) in spans.into_iter().rev() {
            if t0.elapsed() > budget {
                break;
            }
            if b >= ents.len() {
                continue;
            }
            let mut cand = ents.clone();
            cand.drain(a..=b);
            if let Some((e, nv, tr, c)) = attempt(&cand, &mut tries) {
                ents = e;
                v = nv;
                trace = tr;
                cfg = c;
                progress = true;
                break; // spans changed; recompute
            }
        }
    }
    // pass 1b: truncate the tail
    {
        let vals = choices::ents_values(&ents);
        let mut keep = vals.len();
        let mut step = keep / 2;
        while step > 0 && t0.elapsed() < budget {
            if keep > step {
                let cand: Vec<Ent> = vals[..keep - step].iter().map(|x| Ent::Val("t".into(), 0, *x)).collect();
                if let Some((e, nv, tr, c)) = attempt(&cand, &mut tries) {
                    ents = e;
                    v = nv;
                    trace = tr;
                    cfg = c;
                    keep = choices::ents_values(&ents).len().min(keep - step);
                    continue;
                }
            }
            step /= 2;
        }
    }
    // pass 2: lower values (to 0, then halve), front to back
    let mut i = 0;
    while i < ents.len() && t0.elapsed() < budget {
        if let Ent::Val(_, _, val) = ents[i].clone() {
            if val != 0 {
                for target in [0u64, val / 2, val - 1] {
                    if target >= val {
                        continue;
                    }
                    let mut cand = ents.clone();
                    if let Ent::Val(l, b, _) = &cand[i] {
                        cand[i] = Ent::Val(l.clone(), *b, target);
                    }
                    if let Some((e, nv, tr, c)) = attempt(&cand, &mut tries) {
                        // keep structure only if the entry count did not shift before i
                        ents = e;
                        v = nv;
                        trace = tr;
                        cfg = c;
                        break;
                    }
                }
            }
        }
        i += 1;
    }
    println!(
        "  minimised: {} -> {} choices in {} replays ({:.1}s)",
        start_len,
        choices::ents_values(&ents).len(),
        tries,
        t0.elapsed().as_secs_f64()
    );
    (ents, v, trace, cfg)
}

/// (start, end) index pairs of bracketed spans at any depth, outermost first by start.
fn top_spans(e: &[Ent]) -> Vec<(usize, usize)> {
    let mut out = vec![];
    let mut stack = vec![];
    for (i, x) in e.iter().enumerate() {
        match x {
            Ent::Open(_) => stack.push(i),
            Ent::Close => {
                if let Some(a) = stack.pop() {
                    out.push((a, i));
                }
            }
            _ => {}
        }
    }
    out.sort();
    out
}
