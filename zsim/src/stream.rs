//! C03 — wire codecs behind the `Read`/`Write` seam: streams of back-to-back records delivered by a
//! faulty transport (short reads/writes, EINTR, EOF/truncation, hard errors, bit flips, count-field
//! rewrites, out-of-range amounts). Traffic comes from the repository's own generators.

use std::collections::HashMap;
use std::io::{self, Read, Write};
use std::sync::{Arc, Mutex, OnceLock};

use proptest::strategy::{Strategy, ValueTree};
use proptest::test_runner::{Config, RngAlgorithm, TestRng, TestRunner};
use serde_json::json;
use sha2::{Digest, Sha256};
use zcash_primitives::block::{Block, BlockHeader};
use zcash_primitives::transaction::{testing::arb_tx, Transaction, TxVersion};
use zcash_protocol::consensus::{BlockHeight, BranchId};
use zcash_protocol::local_consensus::LocalNetwork;

use crate::choices::{hash_str, mix, Choices, SubRng};
use crate::runner::catch;
use crate::sim::{RunCtx, Scenario, SimResult, Tier, Violation};

thread_local! {
    /// Largest single allocation requested on this thread since the last reset (see main.rs).
    pub static MAX_ALLOC: std::cell::Cell<usize> = const { std::cell::Cell::new(0) };
}
const HUGE_ALLOC: usize = 256 << 20;

// ---------------------------------------------------------------- faulty transport

#[derive(Clone, Debug)]
pub enum ReadFault {
    None,
    Eof(usize),
    Hard(usize),
}

pub struct FaultyReader<'a> {
    data: &'a [u8],
    pos: usize,
    rng: SubRng,
    chunk_mode: u8,
    eintr_pct: u64,
    fault: ReadFault,
    pub eintrs: u64,
    pub short_reads: u64,
    pub calls: u64,
    pub fault_fired: bool,
}

impl<'a> FaultyReader<'a> {
    pub fn new(data: &'a [u8], seed: u64, chunk_mode: u8, eintr_pct: u64, fault: ReadFault) -> Self {
        FaultyReader { data, pos: 0, rng: SubRng::new(seed), chunk_mode, eintr_pct, fault, eintrs: 0, short_reads: 0, calls: 0, fault_fired: false }
    }
    pub fn handed_out(&self) -> usize {
        self.pos
    }
}

impl Read for FaultyReader<'_> {
    fn read(&mut self, buf: &mut [u8]) -> io::Result<usize> {
        self.calls += 1;
        if buf.is_empty() {
            return Ok(0);
        }
        if self.eintr_pct > 0 && self.rng.below(100) < self.eintr_pct {
            self.eintrs += 1;
            return Err(io::Error::from(io::ErrorKind::Interrupted));
        }
        let limit = match self.fault {
            ReadFault::Eof(k) | ReadFault::Hard(k) => k.min(self.data.len()),
            ReadFault::None => self.data.len(),
        };
        if self.pos >= limit {
            return match self.fault {
                ReadFault::Hard(_) => {
                    self.fault_fired = true;
                    Err(io::Error::new(io::ErrorKind::Other, "zsim: injected hard read error"))
                }
                ReadFault::Eof(_) => {
                    self.fault_fired = true;
                    Ok(0)
                }
                ReadFault::None => Ok(0),
            };
        }
        let avail = limit - self.pos;
        let want = buf.len().min(avail);
        let n = match self.chunk_mode {
            0 => want,
            1 => 1,
            2 => 1 + self.rng.below(7.min(want as u64)) as usize,
            3 => 1 + self.rng.below(want as u64) as usize,
            _ => {
                if self.rng.below(4) == 0 {
                    1
                } else {
                    want
                }
            }
        }
        .min(want)
        .max(1);
        if n < buf.len().min(self.data.len() - self.pos) {
            self.short_reads += 1;
        }
        buf[..n].copy_from_slice(&self.data[self.pos..self.pos + n]);
        self.pos += n;
        Ok(n)
    }
}

#[derive(Clone, Debug)]
pub enum WriteFault {
    None,
    Hard(usize),
    Zero(usize),
}

pub struct FaultyWriter {
    pub got: Vec<u8>,
    rng: SubRng,
    chunk_mode: u8,
    eintr_pct: u64,
    fault: WriteFault,
    pub eintrs: u64,
    pub short_writes: u64,
    pub fault_fired: bool,
}

impl FaultyWriter {
    pub fn new(seed: u64, chunk_mode: u8, eintr_pct: u64, fault: WriteFault) -> Self {
        FaultyWriter { got: vec![], rng: SubRng::new(seed), chunk_mode, eintr_pct, fault, eintrs: 0, short_writes: 0, fault_fired: false }
    }
}

impl Write for FaultyWriter {
    fn write(&mut self, buf: &[u8]) -> io::Result<usize> {
        if buf.is_empty() {
            return Ok(0);
        }
        if self.eintr_pct > 0 && self.rng.below(100) < self.eintr_pct {
            self.eintrs += 1;
            return Err(io::Error::from(io::ErrorKind::Interrupted));
        }
        let limit = match self.fault {
            WriteFault::Hard(k) | WriteFault::Zero(k) => k,
            WriteFault::None => usize::MAX,
        };
        if self.got.len() >= limit {
            self.fault_fired = true;
            return match self.fault {
                WriteFault::Hard(_) => Err(io::Error::new(io::ErrorKind::Other, "zsim: injected hard write error (disk full)")),
                _ => Ok(0),
            };
        }
        let room = limit - self.got.len();
        let want = buf.len().min(room);
        let n = match self.chunk_mode {
            0 => want,
            1 => 1,
            2 => 1 + self.rng.below(7.min(want as u64)) as usize,
            _ => 1 + self.rng.below(want as u64) as usize,
        }
        .min(want)
        .max(1);
        if n < buf.len() {
            self.short_writes += 1;
        }
        self.got.extend_from_slice(&buf[..n]);
        Ok(n)
    }
    fn flush(&mut self) -> io::Result<()> {
        Ok(())
    }
}

// ---------------------------------------------------------------- traffic

pub const BRANCHES: [BranchId; 11] = [
    BranchId::Sprout,
    BranchId::Overwinter,
    BranchId::Sapling,
    BranchId::Blossom,
    BranchId::Heartwood,
    BranchId::Canopy,
    BranchId::Nu5,
    BranchId::Nu6,
    BranchId::Nu6_1,
    BranchId::Nu6_2,
    BranchId::Nu6_3,
];

pub fn sim_network() -> LocalNetwork {
    LocalNetwork {
        overwinter: Some(BlockHeight::from_u32(100)),
        sapling: Some(BlockHeight::from_u32(200)),
        blossom: Some(BlockHeight::from_u32(300)),
        heartwood: Some(BlockHeight::from_u32(400)),
        canopy: Some(BlockHeight::from_u32(500)),
        nu5: Some(BlockHeight::from_u32(600)),
        nu6: Some(BlockHeight::from_u32(700)),
        nu6_1: Some(BlockHeight::from_u32(800)),
        nu6_2: Some(BlockHeight::from_u32(900)),
        nu6_3: Some(BlockHeight::from_u32(1000)),
    }
}
fn branch_height(b: usize, off: u32) -> u32 {
    // a height inside branch b's range on sim_network (Sprout: 1..99)
    if b == 0 {
        1 + off % 99
    } else {
        (b as u32) * 100 + off % 100
    }
}

/// A normalised transaction record (first-generation value after one round trip).
pub struct TxRec {
    pub bytes: Vec<u8>,
    pub ident: Vec<u8>,
    pub version_lt5: bool,
    /// mismatch between the raw generated value and its first round trip (None = equal, or the
    /// generator artefact applies)
    pub gen_roundtrip_mismatch: Option<String>,
    pub artefact: bool,
    pub count_off: usize,
    /// carries Sprout JoinSplit descriptions (spliced in at the byte level)
    pub has_joinsplits: bool,
}

/// Every field of a transaction, read through the public getters (independent of the writer under
/// test), as one canonical byte string.
pub fn tx_fields(tx: &Transaction) -> Vec<u8> {
    let mut o: Vec<u8> = vec![];
    let v = tx.version();
    o.extend_from_slice(&v.header().to_le_bytes());
    o.extend_from_slice(&v.version_group_id().to_le_bytes());
    o.extend_from_slice(&u32::from(tx.consensus_branch_id()).to_le_bytes());
    o.extend_from_slice(&tx.lock_time().to_le_bytes());
    o.extend_from_slice(&u32::from(tx.expiry_height()).to_le_bytes());
    let lenp = |o: &mut Vec<u8>, n: usize| o.extend_from_slice(&(n as u64).to_le_bytes());
    match tx.transparent_bundle() {
        None => o.push(0),
        Some(b) => {
            o.push(1);
            lenp(&mut o, b.vin.len());
            for i in &b.vin {
                o.extend_from_slice(i.prevout().hash());
                o.extend_from_slice(&i.prevout().n().to_le_bytes());
                lenp(&mut o, i.script_sig().0 .0.len());
                o.extend_from_slice(&i.script_sig().0 .0);
                o.extend_from_slice(&i.sequence().to_le_bytes());
            }
            lenp(&mut o, b.vout.len());
            for t in &b.vout {
                o.extend_from_slice(&u64::from(t.value()).to_le_bytes());
                lenp(&mut o, t.script_pubkey().0 .0.len());
                o.extend_from_slice(&t.script_pubkey().0 .0);
            }
        }
    }
    match tx.sprout_bundle() {
        None => o.push(0),
        Some(b) => {
            o.push(1);
            lenp(&mut o, b.joinsplits.len());
            o.extend_from_slice(&b.joinsplit_pubkey);
            o.extend_from_slice(&b.joinsplit_sig);
        }
    }
    match tx.sapling_bundle() {
        None => o.push(0),
        Some(b) => {
            o.push(1);
            lenp(&mut o, b.shielded_spends().len());
            for s in b.shielded_spends() {
                o.extend_from_slice(&s.cv().to_bytes());
                o.extend_from_slice(&s.anchor().to_bytes());
                o.extend_from_slice(&s.nullifier().0);
                o.extend_from_slice(&<[u8; 32]>::from(*s.rk()));
                o.extend_from_slice(s.zkproof());
                o.extend_from_slice(&<[u8; 64]>::from(*s.spend_auth_sig()));
            }
            lenp(&mut o, b.shielded_outputs().len());
            for d in b.shielded_outputs() {
                o.extend_from_slice(&d.cv().to_bytes());
                o.extend_from_slice(&d.cmu().to_bytes());
                o.extend_from_slice(&d.ephemeral_key().0);
                o.extend_from_slice(d.enc_ciphertext());
                o.extend_from_slice(d.out_ciphertext());
                o.extend_from_slice(d.zkproof());
            }
            o.extend_from_slice(&i64::from(*b.value_balance()).to_le_bytes());
            o.extend_from_slice(&<[u8; 64]>::from(b.authorization().binding_sig));
        }
    }
    for ob in [tx.orchard_bundle(), tx.ironwood_bundle()] {
        match ob {
            None => o.push(0),
            Some(b) => {
                o.push(1);
                lenp(&mut o, b.actions().len());
                for a in b.actions() {
                    o.extend_from_slice(&a.nullifier().to_bytes());
                    o.extend_from_slice(&<[u8; 32]>::from(a.rk()));
                    o.extend_from_slice(&a.cmx().to_bytes());
                    o.extend_from_slice(&a.encrypted_note().epk_bytes);
                    o.extend_from_slice(&a.encrypted_note().enc_ciphertext);
                    o.extend_from_slice(&a.encrypted_note().out_ciphertext);
                    o.extend_from_slice(&a.cv_net().to_bytes());
                    o.extend_from_slice(&<[u8; 64]>::from(a.authorization()));
                }
                o.push(b.flag_byte());
                o.extend_from_slice(&i64::from(*b.value_balance()).to_le_bytes());
                o.extend_from_slice(&b.anchor().to_bytes());
                lenp(&mut o, b.authorization().proof().as_ref().len());
                o.extend_from_slice(b.authorization().proof().as_ref());
                o.extend_from_slice(&<[u8; 64]>::from(b.authorization().binding_signature()));
            }
        }
    }
    o
}

fn tx_ident(tx: &Transaction) -> Vec<u8> {
    let mut v = tx.txid().as_ref().to_vec();
    v.extend_from_slice(tx.auth_commitment().as_bytes());
    let f = tx_fields(tx);
    v.extend_from_slice(&(f.len() as u64).to_le_bytes());
    v.extend_from_slice(blake2b_simd::Params::new().hash_length(32).hash(&f).as_bytes());
    v
}

fn has_sapling_anchor_artefact(tx: &Transaction) -> bool {
    // (2) a pre-Overwinter transaction has no expiry-height field on the wire; the generator draws one anyway
    if !tx.version().has_overwinter() && u32::from(tx.expiry_height()) != 0 {
        return true;
    }
    // (1) v5/v6 carry one shared Sapling anchor; the generator draws one per spend
    match tx.version() {
        TxVersion::V5 | TxVersion::V6 => tx
            .sapling_bundle()
            .map(|b| {
                let sp = b.shielded_spends();
                sp.len() >= 2 && sp.iter().any(|s| s.anchor() != sp[0].anchor())
            })
            .unwrap_or(false),
        _ => false,
    }
}

fn gen_tx_rec(bi: usize, i: u64) -> Result<TxRec, String> {
    let branch = BRANCHES[bi];
    let mut seed = [0u8; 32];
    let mut r = SubRng::new(mix(0xC03, (bi as u64) << 32 | i));
    r.fill(&mut seed);
    let mut runner = TestRunner::new_with_rng(Config::default(), TestRng::from_seed(RngAlgorithm::ChaCha, &seed));
    let tx0 = arb_tx(branch).new_tree(&mut runner).map_err(|e| format!("generator: {e}"))?.current();
    let mut b0 = vec![];
    tx0.write(&mut b0).map_err(|e| format!("generated tx does not serialise: {e}"))?;
    let tx1 = Transaction::read(&b0[..], branch).map_err(|e| format!("serialised generated tx does not parse: {e}"))?;
    let mut b1 = vec![];
    tx1.write(&mut b1).map_err(|e| format!("parsed tx does not serialise: {e}"))?;
    let artefact = has_sapling_anchor_artefact(&tx0);
    let mut mismatch = None;
    if !artefact {
        if tx_ident(&tx0) != tx_ident(&tx1) {
            let (d0, d1) = (tx_fields(&tx0), tx_fields(&tx1));
            let at = d0.iter().zip(d1.iter()).position(|(a, b)| a != b).unwrap_or(d0.len().min(d1.len()));
            mismatch = Some(format!(
                "generated {:?} tx (branch {:?}, pool entry {i}): differs after one serialise+parse round trip: txid {} -> {}, auth commitment equal: {}, field string ({} / {} bytes) first differs at byte {at}",
                tx0.version(),
                branch,
                tx0.txid(),
                tx1.txid(),
                tx0.auth_commitment().as_bytes() == tx1.auth_commitment().as_bytes(),
                d0.len(),
                d1.len(),
            ));
        } else if b0 != b1 {
            mismatch = Some(format!("generated tx (branch {:?}, pool entry {i}): second serialisation differs from the first", branch));
        }
    }
    let count_off = match tx1.version() {
        TxVersion::Sprout(_) => 4,
        TxVersion::V3 | TxVersion::V4 => 8,
        _ => 20,
    };
    // The repository's generator never emits Sprout JoinSplits. For a third of the v2-v4 transactions whose
    // encoding ends in the (zero) JoinSplit count, one or two JoinSplit descriptions with arbitrary contents, the
    // JoinSplit public key and signature are spliced in at the byte level (PHGR proofs before Sapling, Groth after).
    let (tx1, b1, mismatch) = {
        let mut out = (tx1, b1, mismatch);
        let tx = &out.0;
        let ends_in_js_count = tx.version().has_sprout() && tx.sprout_bundle().is_none() && (!tx.version().has_sapling() || tx.sapling_bundle().is_none()) && out.1.last() == Some(&0);
        if ends_in_js_count && i % 3 == 0 && out.2.is_none() {
            let groth = tx.version().has_sapling();
            let n = 1 + (r.next() % 2) as usize;
            let mut b = out.1.clone();
            b.pop();
            b.push(n as u8);
            for _ in 0..n {
                // one of vpub_old / vpub_new is zero on a real chain; the codec only range-checks them
                let (vo, vn) = match r.next() % 3 {
                    0 => (r.next() % 2_100_000_000_000_000, 0),
                    1 => (0, r.next() % 2_100_000_000_000_000),
                    _ => (0, 0),
                };
                b.extend_from_slice(&vo.to_le_bytes());
                b.extend_from_slice(&vn.to_le_bytes());
                let mut body = vec![0u8; 32 + 64 + 64 + 32 + 32 + 64 + if groth { 192 } else { 296 } + 2 * 601];
                r.fill(&mut body);
                b.extend_from_slice(&body);
            }
            let mut tail = [0u8; 96];
            r.fill(&mut tail);
            b.extend_from_slice(&tail);
            match Transaction::read(&b[..], branch) {
                Err(e) => out.2 = Some(format!("{:?} transaction (branch {branch:?}, pool entry {i}) with {n} spliced JoinSplit description(s) does not parse: {e}", tx.version())),
                Ok(tx2) => {
                    let mut b2 = vec![];
                    tx2.write(&mut b2).map_err(|e| format!("tx with JoinSplits does not serialise: {e}"))?;
                    if b2 != b {
                        out.2 = Some(format!("{:?} transaction (branch {branch:?}, pool entry {i}) with {n} JoinSplit description(s): re-serialisation differs from the bytes parsed ({} vs {} bytes)", tx2.version(), b2.len(), b.len()));
                    } else if tx2.sprout_bundle().map(|x| x.joinsplits.len()) != Some(n) {
                        out.2 = Some(format!("{n} JoinSplit descriptions were encoded, the parsed transaction has {:?}", tx2.sprout_bundle().map(|x| x.joinsplits.len())));
                    }
                    out.0 = tx2;
                    out.1 = b2;
                }
            }
        }
        out
    };
    Ok(TxRec {
        ident: tx_ident(&tx1),
        version_lt5: !matches!(tx1.version(), TxVersion::V5 | TxVersion::V6),
        has_joinsplits: tx1.sprout_bundle().is_some(),
        bytes: b1,
        gen_roundtrip_mismatch: mismatch,
        artefact,
        count_off,
    })
}

type Pool = Mutex<HashMap<(usize, u64), Arc<Result<TxRec, String>>>>;
static POOL: OnceLock<Pool> = OnceLock::new();

pub fn tx_rec(bi: usize, i: u64) -> Arc<Result<TxRec, String>> {
    let pool = POOL.get_or_init(|| Mutex::new(HashMap::new()));
    if let Some(r) = pool.lock().unwrap().get(&(bi, i)) {
        return r.clone();
    }
    // generate outside the lock (deterministic in (bi, i), so a duplicate computation is harmless)
    let r = Arc::new(catch(|| gen_tx_rec(bi, i)).unwrap_or_else(|m| Err(format!("panic while generating/round-tripping: {m}"))));
    if i >= POOL_CACHED {
        return r;
    }
    pool.lock().unwrap().entry((bi, i)).or_insert(r).clone()
}

// ---------------------------------------------------------------- record kinds

#[derive(Clone)]
enum Kind {
    Tx(usize),
    Header,
    Block(usize),
}

/// Result of parsing one record: identity (ids + field hash) and canonical re-serialisation.
struct Parsed {
    ident: Vec<u8>,
    reser: Vec<u8>,
    obj: Obj,
}
enum Obj {
    Tx(Transaction),
    Header(BlockHeader),
    Block(Block),
}

fn header_ident(h: &BlockHeader) -> Vec<u8> {
    let mut v = h.hash().0.to_vec();
    v.extend_from_slice(&hash_str(&format!("{:?}", h)).to_le_bytes());
    v
}

fn parse_one(kind: &Kind, r: &mut dyn Read) -> io::Result<Parsed> {
    match kind {
        Kind::Tx(bi) => {
            let tx = Transaction::read(r, BRANCHES[*bi])?;
            let mut reser = vec![];
            tx.write(&mut reser)?;
            Ok(Parsed { ident: tx_ident(&tx), reser, obj: Obj::Tx(tx) })
        }
        Kind::Header => {
            let h = BlockHeader::read(r)?;
            let mut reser = vec![];
            h.write(&mut reser)?;
            Ok(Parsed { ident: header_ident(&h), reser, obj: Obj::Header(h) })
        }
        Kind::Block(_) => {
            let b = Block::read(r, &sim_network())?;
            let mut reser = vec![];
            b.write(&mut reser)?;
            let mut ident = header_ident(b.header());
            for tx in b.vtx() {
                ident.extend_from_slice(&tx_ident(tx));
            }
            ident.extend_from_slice(&u32::from(b.claimed_height()).to_le_bytes());
            Ok(Parsed { ident, reser, obj: Obj::Block(b) })
        }
    }
}

fn write_obj(o: &Obj, w: &mut dyn Write) -> io::Result<()> {
    match o {
        Obj::Tx(t) => t.write(w),
        Obj::Header(h) => h.write(w),
        Obj::Block(b) => b.write(w),
    }
}

fn sha256d(b: &[u8]) -> [u8; 32] {
    let mut o = [0u8; 32];
    o.copy_from_slice(&Sha256::digest(Sha256::digest(b)));
    o
}

fn gen_header_bytes(r: &mut SubRng) -> Vec<u8> {
    let mut b = vec![];
    b.extend_from_slice(&(r.next() as u32).to_le_bytes());
    b.extend_from_slice(&r.bytes32());
    b.extend_from_slice(&r.bytes32());
    b.extend_from_slice(&r.bytes32());
    b.extend_from_slice(&(r.next() as u32).to_le_bytes());
    b.extend_from_slice(&(r.next() as u32).to_le_bytes());
    b.extend_from_slice(&r.bytes32());
    let sol_len = match r.below(6) {
        0 => 0usize,
        1 => 1,
        2 => 36,
        3 => 252,
        4 => 253 + r.below(300) as usize,
        _ => 1344,
    };
    compact_into(&mut b, sol_len as u64);
    let mut sol = vec![0u8; sol_len];
    r.fill(&mut sol);
    b.extend_from_slice(&sol);
    b
}

fn compact_into(out: &mut Vec<u8>, v: u64) {
    if v < 253 {
        out.push(v as u8);
    } else if v <= 0xFFFF {
        out.push(253);
        out.extend_from_slice(&(v as u16).to_le_bytes());
    } else if v <= 0xFFFF_FFFF {
        out.push(254);
        out.extend_from_slice(&(v as u32).to_le_bytes());
    } else {
        out.push(255);
        out.extend_from_slice(&v.to_le_bytes());
    }
}

/// Hand-serialised coinbase transaction (v4 layout up to Canopy, v5 afterwards, v6 on NU6.3) whose
/// scriptSig starts with the block height.
fn coinbase_bytes(bi: usize, height: u32, r: &mut SubRng) -> Vec<u8> {
    let mut script = vec![];
    if (1..=16).contains(&height) {
        script.push(0x50 + height as u8);
        script.push(0x00);
    } else {
        let mut hb = vec![];
        let mut h = height;
        while h > 0 {
            hb.push((h & 0xff) as u8);
            h >>= 8;
        }
        if hb.last().map(|b| b & 0x80 != 0).unwrap_or(false) {
            hb.push(0);
        }
        script.push(hb.len() as u8);
        script.extend_from_slice(&hb);
        if script.len() < 2 {
            script.push(0);
        }
    }
    let mut b = vec![];
    let branch = BRANCHES[bi];
    let v5 = matches!(branch, BranchId::Nu5 | BranchId::Nu6 | BranchId::Nu6_1 | BranchId::Nu6_2);
    let v6 = matches!(branch, BranchId::Nu6_3);
    let vin_vout = |b: &mut Vec<u8>, r: &mut SubRng| {
        b.push(1);
        b.extend_from_slice(&[0u8; 32]);
        b.extend_from_slice(&u32::MAX.to_le_bytes());
        compact_into(b, script.len() as u64);
        b.extend_from_slice(&script);
        b.extend_from_slice(&u32::MAX.to_le_bytes());
        // one output: value + P2PKH-like script
        b.push(1);
        b.extend_from_slice(&(r.below(21_000_000 * 100_000_000) as i64).to_le_bytes());
        let spk: Vec<u8> = [vec![0x76, 0xa9, 0x14], r.bytes32()[..20].to_vec(), vec![0x88, 0xac]].concat();
        compact_into(b, spk.len() as u64);
        b.extend_from_slice(&spk);
    };
    if v5 || v6 {
        let (ver, vgid): (u32, u32) = if v6 { (6 | (1 << 31), 0xFFFF_FFFF) } else { (5 | (1 << 31), 0x26A7_270A) };
        b.extend_from_slice(&ver.to_le_bytes());
        b.extend_from_slice(&vgid.to_le_bytes());
        b.extend_from_slice(&u32::from(branch).to_le_bytes());
        b.extend_from_slice(&0u32.to_le_bytes());
        b.extend_from_slice(&height.to_le_bytes());
        vin_vout(&mut b, r);
        b.push(0); // sapling spends
        b.push(0); // sapling outputs
        b.push(0); // orchard actions
        if v6 {
            b.push(0); // ironwood actions
        }
    } else {
        match branch {
            BranchId::Sprout => b.extend_from_slice(&1u32.to_le_bytes()),
            BranchId::Overwinter => {
                b.extend_from_slice(&(3u32 | (1 << 31)).to_le_bytes());
                b.extend_from_slice(&0x03C4_8270u32.to_le_bytes());
            }
            _ => {
                b.extend_from_slice(&(4u32 | (1 << 31)).to_le_bytes());
                b.extend_from_slice(&0x892F_2085u32.to_le_bytes());
            }
        }
        vin_vout(&mut b, r);
        b.extend_from_slice(&0u32.to_le_bytes()); // lock_time
        match branch {
            BranchId::Sprout => {}
            BranchId::Overwinter => {
                b.extend_from_slice(&height.to_le_bytes());
                b.push(0); // joinsplits
            }
            _ => {
                b.extend_from_slice(&height.to_le_bytes());
                b.extend_from_slice(&0i64.to_le_bytes());
                b.push(0);
                b.push(0);
                b.push(0);
            }
        }
    }
    b
}

/// A stored, non-canonical but value-preserving re-encoding of the CompactSize at `off`.
fn widen_compact(b: &[u8], off: usize) -> Option<Vec<u8>> {
    let tag = *b.get(off)?;
    let mut out = b[..off].to_vec();
    match tag {
        0..=252 => {
            out.extend_from_slice(&[253, tag, 0]);
            out.extend_from_slice(&b[off + 1..]);
        }
        253 => {
            out.push(254);
            out.extend_from_slice(b.get(off + 1..off + 3)?);
            out.extend_from_slice(&[0, 0]);
            out.extend_from_slice(&b[off + 3..]);
        }
        254 => {
            out.push(255);
            out.extend_from_slice(b.get(off + 1..off + 5)?);
            out.extend_from_slice(&[0, 0, 0, 0]);
            out.extend_from_slice(&b[off + 5..]);
        }
        _ => return None,
    }
    Some(out)
}

struct Rec {
    kind: Kind,
    bytes: Vec<u8>,
    ident: Vec<u8>,
    sha_id: Option<[u8; 32]>, // expected id = sha256d(bytes), when defined that way
    count_off: usize,
    label: String,
}

const POOL_CACHED: u64 = 24;

fn pool_index(ch: &mut Choices) -> u64 {
    if ch.chance("rec.fresh", 1, 8) {
        POOL_CACHED + ch.below("rec.pool.fresh", 1 << 16)
    } else {
        ch.below("rec.pool", POOL_CACHED)
    }
}

fn build_record(ch: &mut Choices, ctx: &mut RunCtx) -> Result<Option<Rec>, Violation> {
    let k = ch.weighted("rec.kind", &[70, 15, 15]);
    match k {
        0 => {
            let bi = ch.idx("rec.branch", BRANCHES.len());
            let i = pool_index(ch);
            let r = tx_rec(bi, i);
            match &*r {
                Err(e) => {
                    ctx.report(Violation::new("generated_tx_roundtrips", format!("branch {:?} entry {i}: {e}", BRANCHES[bi])))?;
                    Ok(None)
                }
                Ok(t) => {
                    ctx.oracle("generated_value_equals_first_roundtrip");
                    if let Some(m) = &t.gen_roundtrip_mismatch {
                        ctx.report(Violation::new("generated_value_equals_first_roundtrip", m.clone()))?;
                    }
                    if t.artefact {
                        ctx.probe("generator_anchor_artefact_normalised");
                    }
                    if t.has_joinsplits {
                        ctx.probe("transaction_with_sprout_joinsplits");
                    }
                    let sha_id = if t.version_lt5 { Some(sha256d(&t.bytes)) } else { None };
                    Ok(Some(Rec { kind: Kind::Tx(bi), bytes: t.bytes.clone(), ident: t.ident.clone(), sha_id, count_off: t.count_off, label: format!("tx[{:?}#{i},{}B]", BRANCHES[bi], t.bytes.len()) }))
                }
            }
        }
        1 => {
            let mut r = ch.fork_rng("hdr");
            let bytes = gen_header_bytes(&mut r);
            let p = parse_one(&Kind::Header, &mut &bytes[..]).map_err(|e| Violation::new("header_roundtrip", format!("generated header does not parse: {e}")))?;
            let label = format!("header[{}B]", bytes.len());
            Ok(Some(Rec { kind: Kind::Header, sha_id: Some(sha256d(&bytes)), ident: p.ident, bytes, count_off: 140, label }))
        }
        _ => {
            let bi = ch.idx("blk.branch", BRANCHES.len());
            let mut r = ch.fork_rng("blk");
            let height = branch_height(bi, r.next() as u32);
            let mut bytes = gen_header_bytes(&mut r);
            let hdr_len = bytes.len();
            let n_other = ch.below("blk.ntx", 3);
            compact_into(&mut bytes, 1 + n_other);
            bytes.extend_from_slice(&coinbase_bytes(bi, height, &mut r));
            for _ in 0..n_other {
                let i = pool_index(ch);
                let t = tx_rec(bi, i);
                match &*t {
                    Ok(t) => bytes.extend_from_slice(&t.bytes),
                    Err(e) => {
                        ctx.report(Violation::new("generated_tx_roundtrips", format!("branch {:?} entry {i}: {e}", BRANCHES[bi])))?;
                        return Ok(None);
                    }
                }
            }
            match catch(|| parse_one(&Kind::Block(bi), &mut &bytes[..])) {
                Err(m) => {
                    ctx.report(Violation::new("no_panic", format!("Block::read panicked on a well-formed block at height {height}: {m}")))?;
                    Ok(None)
                }
                Ok(Err(e)) => {
                    // a generated non-coinbase tx may by chance contain a null prevout etc.; such a block is
                    // legitimately refused and is not traffic
                    ctx.shape("blk_refused");
                    ctx.event(format!("generated block refused: {e}"));
                    Ok(None)
                }
                Ok(Ok(p)) => {
                    if p.reser != bytes {
                        ctx.report(Violation::new("block_roundtrip", format!("block at height {height} ({:?}) re-serialises differently", BRANCHES[bi])))?;
                    }
                    let label = format!("block[{:?}@{height},{}tx,{}B]", BRANCHES[bi], 1 + n_other, bytes.len());
                    Ok(Some(Rec { kind: Kind::Block(bi), ident: p.ident, bytes, sha_id: None, count_off: hdr_len, label }))
                }
            }
        }
    }
}

fn run_stream(ch: &mut Choices, ctx: &mut RunCtx) -> SimResult {
    // ---- build the stream
    let n_rec = 1 + ch.below("n_rec", 3) as usize;
    let mut recs = vec![];
    for _ in 0..n_rec {
        if let Some(r) = build_record(ch, ctx)? {
            recs.push(r);
        }
    }
    if recs.is_empty() {
        return Ok(());
    }
    let mut stream = vec![];
    let mut bounds = vec![0usize];
    for r in &recs {
        stream.extend_from_slice(&r.bytes);
        bounds.push(stream.len());
    }
    let labels: Vec<&str> = recs.iter().map(|r| r.label.as_str()).collect();
    let mode = ch.weighted("mode", &[30, 14, 10, 12, 12, 8, 14]);
    let chunk_mode = ch.below("chunk", 5) as u8;
    let eintr = *ch.pick("eintr", &[0u64, 20, 50]);
    let seed = ch.u64("io.seed");
    ctx.config = json!({"records": labels, "mode": mode, "chunk_mode": chunk_mode, "eintr_pct": eintr});
    ctx.time("stream_bytes", stream.len() as u64);
    ctx.time("records", recs.len() as u64);
    ctx.shape(&format!("m{mode}c{chunk_mode}e{eintr}"));
    for r in &recs {
        ctx.shape(match r.kind {
            Kind::Tx(_) => "tx",
            Kind::Header => "hdr",
            Kind::Block(_) => "blk",
        });
    }

    match mode {
        // ---- fault-free delivery in any chunking with EINTRs
        0 => {
            ctx.op("deliver_clean");
            let mut rd = FaultyReader::new(&stream, seed, chunk_mode, eintr, ReadFault::None);
            for (i, r) in recs.iter().enumerate() {
                let res = catch(|| parse_one(&r.kind, &mut rd)).map_err(|m| Violation::new("no_panic", format!("parser panicked on well-formed {}: {m}", r.label)));
                let p = match res {
                    Err(v) => return ctx.report(v),
                    Ok(Err(e)) => {
                        return ctx.report(Violation::new("clean_delivery_parses", format!("record {i} {} failed under chunk mode {chunk_mode}, eintr {eintr}%: {e}", r.label)));
                    }
                    Ok(Ok(p)) => p,
                };
                ctx.oracle("clean_delivery");
                if rd.handed_out() != bounds[i + 1] {
                    return ctx.report(Violation::new("consumes_exactly_its_bytes", format!("record {i} {}: reader handed out {} bytes, record ends at {}", r.label, rd.handed_out(), bounds[i + 1])));
                }
                if p.ident != r.ident {
                    return ctx.report(Violation::new("parsed_value_identical", format!("record {i} {}: id/auth-commitment/fields differ from the delivered value", r.label)));
                }
                if p.reser != r.bytes {
                    return ctx.report(Violation::new("reserialisation_identical", format!("record {i} {} re-serialises differently", r.label)));
                }
                if let Some(id) = r.sha_id {
                    if p.ident[..32] != id {
                        return ctx.report(Violation::new("id_is_sha256d_of_consumed_bytes", format!("record {i} {}", r.label)));
                    }
                }
            }
            if rd.eintrs > 0 {
                ctx.fault_n("eintr", rd.eintrs);
                ctx.shape("eintr");
            }
            if rd.short_reads > 0 {
                ctx.fault_n("short_read", rd.short_reads);
                ctx.shape("short_read");
            }
            ctx.event(format!("clean delivery of {} records, {} read calls, {} EINTR, {} short reads", recs.len(), rd.calls, rd.eintrs, rd.short_reads));
        }
        // ---- truncation / hard read error at k
        1 | 2 => {
            let k = ch.idx("cut", stream.len());
            let hard = mode == 2;
            ctx.op(if hard { "deliver_hard_error" } else { "deliver_truncated" });
            let fault = if hard { ReadFault::Hard(k) } else { ReadFault::Eof(k) };
            let mut rd = FaultyReader::new(&stream, seed, chunk_mode, eintr, fault);
            for (i, r) in recs.iter().enumerate() {
                let res = catch(|| parse_one(&r.kind, &mut rd)).map_err(|m| Violation::new("no_panic", format!("parser panicked on stream cut at {k} in {}: {m}", r.label)));
                let res = match res {
                    Err(v) => return ctx.report(v),
                    Ok(x) => x,
                };
                ctx.oracle("cut_delivery");
                if bounds[i + 1] <= k {
                    match res {
                        Ok(p) if p.ident == r.ident && rd.handed_out() == bounds[i + 1] => {}
                        Ok(_) => return ctx.report(Violation::new("record_before_cut_intact", format!("record {i} {} before the cut at {k} parsed to a different value or over-read", r.label))),
                        Err(e) => return ctx.report(Violation::new("record_before_cut_intact", format!("record {i} {} lies entirely before the cut at {k} but failed: {e}", r.label))),
                    }
                } else {
                    match res {
                        Err(e) => {
                            if hard && e.kind() != io::ErrorKind::Other && rd.fault_fired {
                                // the injected error must surface as itself (not be re-labelled as EOF / swallowed)
                                ctx.shape("relabelled");
                            }
                            ctx.shape("cut_err");
                        }
                        Ok(_) => return ctx.report(Violation::new("straddling_record_rejected", format!("record {i} {} straddles the cut at {k} (ends at {}) yet parsed successfully", r.label, bounds[i + 1]))),
                    }
                    break;
                }
            }
            ctx.fault(if hard { "read_error@k" } else { "eof@k" });
            ctx.event(format!("stream cut ({}) at {k} of {}", if hard { "hard error" } else { "EOF" }, stream.len()));
        }
        // ---- single bit flip
        3 => {
            ctx.op("deliver_bit_flip");
            // a third of the flips land in the first 16 bytes of a record (header word, version group id,
            // consensus branch id, first count field / block version): the structural bytes, which a
            // uniformly drawn position in a multi-kilobyte record almost never hits
            let k = if ch.chance("flip.in_header", 1, 3) {
                let r = ch.idx("flip.rec", recs.len());
                let len = (bounds[r + 1] - bounds[r]).min(16);
                ctx.probe("bit_flip_in_record_header");
                bounds[r] + ch.idx("flip.hpos", len)
            } else {
                ch.idx("flip.pos", stream.len())
            };
            let bit = ch.below("flip.bit", 8);
            let mut s2 = stream.clone();
            s2[k] ^= 1 << bit;
            ctx.fault("bit_flip@k");
            let victim = bounds.iter().rposition(|b| *b <= k).unwrap();
            check_mutated(ctx, &recs, &s2, &bounds, victim, seed, chunk_mode, eintr, &format!("bit flip at {k}.{bit}"), false)?;
        }
        // ---- count-field rewritten non-canonically (same value, longer encoding): must be rejected
        4 => {
            ctx.op("deliver_noncanonical_count");
            let vi = ch.idx("nc.rec", recs.len());
            let r = &recs[vi];
            // candidate CompactSize offsets inside the record
            let mut offs = vec![r.count_off];
            if let Kind::Tx(_) = r.kind {
                if r.bytes.get(r.count_off) == Some(&0) {
                    offs.push(r.count_off + 1); // vout count when vin is empty
                } else {
                    offs.push(r.count_off + 1 + 36); // script length of the first input
                }
            }
            let off = *ch.pick("nc.off", &offs);
            if let Some(nb) = widen_compact(&r.bytes, off) {
                let mut s2 = stream[..bounds[vi]].to_vec();
                s2.extend_from_slice(&nb);
                s2.extend_from_slice(&stream[bounds[vi + 1]..]);
                ctx.fault("count_field_noncanonical");
                let mut rd = FaultyReader::new(&s2, seed, chunk_mode, eintr, ReadFault::None);
                for (i, r) in recs.iter().enumerate().take(vi + 1) {
                    let res = catch(|| parse_one(&r.kind, &mut rd)).map_err(|m| Violation::new("no_panic", format!("parser panicked on non-canonical count in {}: {m}", r.label)));
                    let res = match res {
                        Err(v) => return ctx.report(v),
                        Ok(x) => x,
                    };
                    ctx.oracle("noncanonical_count_rejected");
                    if i == vi {
                        if res.is_ok() {
                            return ctx.report(Violation::new("noncanonical_count_rejected", format!("{}: CompactSize at offset {off} re-encoded non-canonically was accepted", r.label)));
                        }
                    } else if res.is_err() {
                        return ctx.report(Violation::new("record_before_cut_intact", format!("record {i} before the mutated one failed")));
                    }
                }
                ctx.event(format!("non-canonical CompactSize at record {vi} offset {off}"));
            }
        }
        // ---- count field / amount overwritten with a hostile value
        5 => {
            ctx.op("deliver_hostile_count");
            let vi = ch.idx("hc.rec", recs.len());
            let r = &recs[vi];
            let off = r.count_off;
            let mut nb = r.bytes[..off].to_vec();
            let which = ch.below("hc.kind", 4);
            let tag = r.bytes[off];
            let old_len = match tag {
                0..=252 => 1,
                253 => 3,
                254 => 5,
                _ => 9,
            };
            let desc;
            let mut amount = false;
            match which {
                0 => {
                    nb.extend_from_slice(&[254, 0xff, 0xff, 0xff, 0x01]); // 2^25-1: largest allowed
                    desc = "count := MAX_COMPACT_SIZE-1";
                }
                1 => {
                    nb.extend_from_slice(&[254, 0x01, 0x00, 0x00, 0x02]); // just above MAX_COMPACT_SIZE
                    desc = "count := MAX_COMPACT_SIZE+1";
                }
                2 => {
                    nb.extend_from_slice(&[255, 0xff, 0xff, 0xff, 0xff, 0xff, 0xff, 0xff, 0x7f]);
                    desc = "count := 2^63-1";
                }
                _ => {
                    // out-of-range amount in the first output of a transaction with no inputs
                    if matches!(r.kind, Kind::Tx(_)) && tag == 0 && matches!(r.bytes.get(off + 1), Some(1..=252)) && r.bytes.len() > off + 10 {
                        nb.extend_from_slice(&r.bytes[off..off + 2]);
                        let bad: i64 = if ch.chance("hc.neg", 1, 2) { -1 } else { 21_000_000 * 100_000_000 + 1 };
                        nb.extend_from_slice(&bad.to_le_bytes());
                        nb.extend_from_slice(&r.bytes[off + 10..]);
                        amount = true;
                        desc = "first output value out of range";
                    } else {
                        nb.extend_from_slice(&[253, 0xff, 0xff]);
                        desc = "count := 65535";
                    }
                }
            }
            if !amount {
                nb.extend_from_slice(&r.bytes[off + old_len..]);
            }
            let mut s2 = stream[..bounds[vi]].to_vec();
            s2.extend_from_slice(&nb);
            s2.extend_from_slice(&stream[bounds[vi + 1]..]);
            ctx.fault(if amount { "amount_out_of_range" } else { "count_field_flip" });
            let mut b2 = bounds.clone();
            let delta = nb.len() as isize - r.bytes.len() as isize;
            for b in b2.iter_mut().skip(vi + 1) {
                *b = (*b as isize + delta) as usize;
            }
            check_mutated(ctx, &recs, &s2, &b2, vi, seed, chunk_mode, eintr, desc, amount)?;
        }
        // ---- write side: short writes, EINTR, hard error / zero-length write at k
        _ => {
            ctx.op("write_faulty");
            let vi = ch.idx("w.rec", recs.len());
            let r = &recs[vi];
            let p = match parse_one(&r.kind, &mut &r.bytes[..]) {
                Ok(p) => p,
                Err(e) => return ctx.report(Violation::new("clean_delivery_parses", format!("{}: {e}", r.label))),
            };
            let wk = ch.below("w.fault", 3);
            let k = ch.idx("w.at", r.bytes.len());
            let fault = match wk {
                0 => WriteFault::None,
                1 => WriteFault::Hard(k),
                _ => WriteFault::Zero(k),
            };
            let mut w = FaultyWriter::new(seed, chunk_mode.min(3), eintr, fault.clone());
            let res = catch(|| write_obj(&p.obj, &mut w)).map_err(|m| Violation::new("no_panic", format!("writer panicked for {}: {m}", r.label)));
            let res = match res {
                Err(v) => return ctx.report(v),
                Ok(x) => x,
            };
            ctx.oracle("faulty_write");
            if w.eintrs > 0 {
                ctx.fault_n("eintr", w.eintrs);
            }
            if w.short_writes > 0 {
                ctx.fault_n("short_write", w.short_writes);
            }
            match fault {
                WriteFault::None => {
                    if res.is_err() || w.got != r.bytes {
                        return ctx.report(Violation::new("write_under_short_writes_identical", format!("{}: output through a short-writing / interrupting writer differs from the canonical bytes ({:?})", r.label, res.err())));
                    }
                }
                _ => {
                    ctx.fault(if wk == 1 { "write_error@k" } else { "write_zero@k" });
                    if res.is_ok() {
                        return ctx.report(Violation::new("write_error_propagates", format!("{}: write reported success although the writer failed at offset {k}", r.label)));
                    }
                    if w.got.len() > r.bytes.len() || w.got[..] != r.bytes[..w.got.len()] {
                        return ctx.report(Violation::new("written_bytes_are_prefix", format!("{}: bytes that reached the writer before the failure at {k} are not a prefix of the canonical serialisation", r.label)));
                    }
                }
            }
            ctx.event(format!("write of {} with fault {:?}: {} bytes reached the writer", r.label, fault, w.got.len()));
        }
    }
    Ok(())
}

/// Delivery of a stream in which record `victim` was mutated: earlier records intact, the victim
/// either rejected or accepted as a value that is a re-serialisation fixpoint; no panic, no huge
/// allocation.
#[allow(clippy::too_many_arguments)]
fn check_mutated(ctx: &mut RunCtx, recs: &[Rec], s2: &[u8], bounds: &[usize], victim: usize, seed: u64, chunk_mode: u8, eintr: u64, desc: &str, must_reject: bool) -> SimResult {
    let mut rd = FaultyReader::new(s2, seed, chunk_mode, eintr, ReadFault::None);
    for (i, r) in recs.iter().enumerate().take(victim + 1) {
        MAX_ALLOC.with(|m| m.set(0));
        let start = rd.handed_out();
        let res = catch(|| parse_one(&r.kind, &mut rd)).map_err(|m| Violation::new("no_panic", format!("parser panicked on {desc} in {}: {m}", r.label)));
        let res = match res {
            Err(v) => return ctx.report(v),
            Ok(x) => x,
        };
        let big = MAX_ALLOC.with(|m| m.get());
        if big >= HUGE_ALLOC {
            return ctx.report(Violation::new("no_allocation_driven_by_count_field", format!("{desc} in {}: a single allocation of {big} bytes was requested", r.label)));
        }
        ctx.oracle("mutated_delivery");
        if i < victim {
            match res {
                Ok(p) if p.ident == r.ident && rd.handed_out() == bounds[i + 1] => {}
                _ => return ctx.report(Violation::new("record_before_cut_intact", format!("record {i} {} before the mutated record changed", r.label))),
            }
            continue;
        }
        match res {
            Err(_) => {
                ctx.shape("mut_err");
                ctx.event(format!("{desc} in {} -> rejected", r.label));
            }
            Ok(p) => {
                ctx.shape("mut_ok");
                if must_reject {
                    return ctx.report(Violation::new("out_of_range_amount_rejected", format!("{desc} in {} was accepted", r.label)));
                }
                let consumed = &s2[start..rd.handed_out()];
                // what was accepted must be a fixpoint: re-serialise -> parse -> same value, same bytes
                let p2 = catch(|| parse_one(&r.kind, &mut &p.reser[..])).map_err(|m| Violation::new("no_panic", format!("parser panicked on re-serialisation of an accepted mutated record: {m}")));
                let p2 = match p2 {
                    Err(v) => return ctx.report(v),
                    Ok(x) => x,
                };
                match p2 {
                    Err(e) => return ctx.report(Violation::new("accepted_value_reparses", format!("{desc} in {}: accepted, but its re-serialisation does not parse: {e}", r.label))),
                    Ok(p2) => {
                        if p2.ident != p.ident || p2.reser != p.reser {
                            return ctx.report(Violation::new("accepted_value_is_fixpoint", format!("{desc} in {}: accepted value changes under re-serialise+parse", r.label)));
                        }
                    }
                }
                if let (Some(_), Kind::Header) = (r.sha_id, &r.kind) {
                    if p.ident[..32] != sha256d(consumed) {
                        return ctx.report(Violation::new("id_is_sha256d_of_consumed_bytes", format!("{desc} in {}", r.label)));
                    }
                }
                if let (Kind::Tx(_), Obj::Tx(t)) = (&r.kind, &p.obj) {
                    if !matches!(t.version(), TxVersion::V5 | TxVersion::V6) && *t.txid().as_ref() != sha256d(consumed) {
                        return ctx.report(Violation::new("id_is_sha256d_of_consumed_bytes", format!("{desc} in {}", r.label)));
                    }
                }
                ctx.event(format!("{desc} in {} -> accepted as a different valid value ({} bytes consumed)", r.label, consumed.len()));
            }
        }
    }
    Ok(())
}

pub struct Stream;

impl Scenario for Stream {
    fn property(&self) -> &'static str {
        "C03"
    }
    fn name(&self) -> &'static str {
        "stream"
    }
    fn level(&self) -> &'static str {
        "fault_enumeration"
    }
    fn run(&self, ch: &mut Choices, ctx: &mut RunCtx) -> SimResult {
        run_stream(ch, ctx)
    }
    fn runs(&self, tier: Tier) -> u64 {
        match tier {
            Tier::Quick => 20_000,
            Tier::Thorough => 1_500_000,
        }
    }
    fn budget_s(&self, tier: Tier) -> u64 {
        match tier {
            Tier::Quick => 110,
            Tier::Thorough => 1500,
        }
    }
    fn prepare(&self) {}
    fn rule(&self) -> &'static str {
        "one run = one stream of 1-3 back-to-back records (generated transactions of a drawn branch, block headers, whole blocks) delivered once through the faulty Read/Write seam under one drawn (chunking, EINTR rate, fault) configuration; non-trivial = a fault fired (short read/write, EINTR, EOF, hard error, bit flip, count-field or amount rewrite); distinct = distinct hash of (record kinds, mode, chunking, fault kinds fired, accept/reject outcome)"
    }
    fn components(&self) -> serde_json::Value {
        json!({"Transaction::read/write, BlockHeader::read/write, Block::read/write, HashReader, transparent/sapling/orchard/ironwood bundle codecs": "real",
               "byte stream (peer / disk)": "stub (FaultyReader / FaultyWriter owned by the simulator)",
               "traffic": "repository generators arb_tx(branch) under a seeded proptest runner, normalised by one round trip; Sprout JoinSplit descriptions spliced into a third of the eligible v2-v4 transactions at the byte level; headers and coinbase transactions hand-assembled"})
    }
    fn assumptions(&self) -> Vec<&'static str> {
        vec![
            "generated v5/v6 transactions whose Sapling spends carry different anchors (a generator artefact no wire transaction can have) are compared from their first round trip on; all others are compared with the raw generated value",
            "field identity is judged by txid, auth commitment and a field-by-field rendering read through the public getters (Sprout JoinSplit bodies are not generated and not compared)",
            "sampled, not enumerated: the round-trip clause over all transactions is exercised only as the fault-free configuration of the stream simulation",
        ]
    }
    fn fault_kinds(&self) -> Vec<&'static str> {
        vec!["short_read", "short_write", "eintr", "eof@k", "read_error@k", "bit_flip@k", "count_field_noncanonical", "count_field_flip", "amount_out_of_range", "write_error@k", "write_zero@k"]
    }
    fn time_note(&self) -> &'static str {
        "simulated time = bytes and records delivered through the stream seam"
    }
}

// ---------------------------------------------------------------- zcash_encoding (local 0.5) primitives

use zcash_encoding05::{Array, CompactSize, Optional, Vector, MAX_COMPACT_SIZE};

#[derive(Clone, Debug, PartialEq)]
enum Item {
    Cs(u64),
    Csu(u64),
    VecU8(Vec<u8>),
    VecU32(Vec<u32>),
    Opt(Option<u16>),
    Arr(Vec<u8>),
}

fn item_write(it: &Item, w: &mut dyn Write) -> io::Result<()> {
    match it {
        Item::Cs(v) => CompactSize::write(w, *v as usize),
        Item::Csu(v) => CompactSize::write_unbounded(w, *v),
        Item::VecU8(b) => Vector::write(w, b, |w, x| w.write_all(&[*x])),
        Item::VecU32(b) => Vector::write(w, b, |w, x| w.write_all(&x.to_le_bytes())),
        Item::Opt(o) => Optional::write(w, *o, |w, x| w.write_all(&x.to_le_bytes())),
        Item::Arr(b) => Array::write(w, b.iter(), |w, x| w.write_all(&[**x])),
    }
}

fn rd_u8(r: &mut dyn Read) -> io::Result<u8> {
    let mut b = [0u8; 1];
    r.read_exact(&mut b)?;
    Ok(b[0])
}

fn item_read(schema: &Item, mut r: &mut dyn Read) -> io::Result<Item> {
    Ok(match schema {
        Item::Cs(_) => Item::Cs(CompactSize::read(&mut r)?),
        Item::Csu(_) => Item::Csu(CompactSize::read_unbounded(&mut r)?),
        Item::VecU8(_) => Item::VecU8(Vector::read(&mut r, |r| rd_u8(r))?),
        Item::VecU32(_) => Item::VecU32(Vector::read(&mut r, |r| {
            let mut b = [0u8; 4];
            r.read_exact(&mut b)?;
            Ok(u32::from_le_bytes(b))
        })?),
        Item::Opt(_) => Item::Opt(Optional::read(&mut r, |r| {
            let mut b = [0u8; 2];
            r.read_exact(&mut b)?;
            Ok(u16::from_le_bytes(b))
        })?),
        Item::Arr(a) => Item::Arr(Array::read(&mut r, a.len(), |r| rd_u8(r))?),
    })
}

/// Independent reference encoding.
fn item_ref(it: &Item, o: &mut Vec<u8>) {
    match it {
        Item::Cs(v) | Item::Csu(v) => compact_into(o, *v),
        Item::VecU8(b) => {
            compact_into(o, b.len() as u64);
            o.extend_from_slice(b);
        }
        Item::VecU32(b) => {
            compact_into(o, b.len() as u64);
            for x in b {
                o.extend_from_slice(&x.to_le_bytes());
            }
        }
        Item::Opt(None) => o.push(0),
        Item::Opt(Some(x)) => {
            o.push(1);
            o.extend_from_slice(&x.to_le_bytes());
        }
        Item::Arr(b) => o.extend_from_slice(b),
    }
}

fn gen_item(ch: &mut Choices) -> Item {
    let max = MAX_COMPACT_SIZE as u64;
    let edge = |ch: &mut Choices, bounded: bool| -> u64 {
        let edges: [u64; 12] = [0, 1, 252, 253, 254, 0xFFFF, 0x1_0000, max - 1, max, 0xFFFF_FFFF, 0x1_0000_0000, u64::MAX];
        let n = if bounded { 9 } else { 12 };
        if ch.chance("it.edge", 2, 3) {
            edges[ch.idx("it.edge.i", n)]
        } else if bounded {
            ch.below("it.v", max + 1)
        } else {
            ch.u64("it.v64")
        }
    };
    match ch.below("it.kind", 6) {
        0 => Item::Cs(edge(ch, true)),
        1 => Item::Csu(edge(ch, false)),
        2 => {
            let n = *ch.pick("it.len", &[0usize, 1, 7, 252, 253, 300, 70000]);
            Item::VecU8(ch.bytes("it.bytes", n))
        }
        3 => {
            let n = ch.below("it.n32", 300) as usize;
            let mut r = ch.fork_rng("it.u32s");
            Item::VecU32((0..n).map(|_| r.next() as u32).collect())
        }
        4 => Item::Opt(if ch.chance("it.some", 1, 2) { Some(ch.below("it.u16", 65536) as u16) } else { None }),
        _ => {
            let n = ch.below("it.alen", 40) as usize;
            Item::Arr(ch.bytes("it.arr", n))
        }
    }
}

fn run_enc(ch: &mut Choices, ctx: &mut RunCtx) -> SimResult {
    let n = 1 + ch.below("n_items", 6) as usize;
    let items: Vec<Item> = (0..n).map(|_| gen_item(ch)).collect();
    let chunk_mode = ch.below("chunk", 5) as u8;
    let eintr = *ch.pick("eintr", &[0u64, 20, 50]);
    let seed = ch.u64("io.seed");
    // reference bytes + item boundaries
    let mut refb = vec![];
    let mut bounds = vec![0usize];
    for it in &items {
        item_ref(it, &mut refb);
        bounds.push(refb.len());
    }
    ctx.config = json!({"items": items.iter().map(|i| match i { Item::Cs(v) => format!("cs({v})"), Item::Csu(v) => format!("csu({v})"), Item::VecU8(b) => format!("vec_u8[{}]", b.len()), Item::VecU32(b) => format!("vec_u32[{}]", b.len()), Item::Opt(o) => format!("opt({o:?})"), Item::Arr(a) => format!("arr[{}]", a.len()) }).collect::<Vec<_>>(), "chunk_mode": chunk_mode, "eintr_pct": eintr});
    ctx.time("stream_bytes", refb.len() as u64);
    for it in &items {
        ctx.shape(match it {
            Item::Cs(_) => "cs",
            Item::Csu(_) => "csu",
            Item::VecU8(_) => "v8",
            Item::VecU32(_) => "v32",
            Item::Opt(_) => "opt",
            Item::Arr(_) => "arr",
        });
    }
    // ---- write through a short-writing, interrupting writer
    let mut w = FaultyWriter::new(seed, chunk_mode.min(3), eintr, WriteFault::None);
    for it in &items {
        let r = catch(|| item_write(it, &mut w)).map_err(|m| Violation::new("no_panic", format!("writer panicked on {it:?}: {m}")));
        match r {
            Err(v) => return ctx.report(v),
            Ok(Err(e)) => return ctx.report(Violation::new("enc_write_matches_reference", format!("write of {it:?} failed: {e}"))),
            Ok(Ok(())) => {}
        }
    }
    ctx.oracle("enc_write_matches_reference");
    ctx.fault_n("short_write", w.short_writes);
    ctx.fault_n("eintr", w.eintrs);
    if w.got != refb {
        return ctx.report(Violation::new("enc_write_matches_reference", format!("encoding of {:?} differs from the reference encoding", ctx.config["items"])));
    }
    ctx.op("enc_write");
    // ---- read back under a drawn fault
    let mode = ch.weighted("mode", &[30, 20, 25, 10, 15]);
    match mode {
        0 | 1 => {
            let cut = if mode == 1 { Some(ch.idx("cut", refb.len().max(1))) } else { None };
            ctx.op(if cut.is_some() { "enc_read_truncated" } else { "enc_read_clean" });
            let fault = match cut {
                Some(k) => ReadFault::Eof(k),
                None => ReadFault::None,
            };
            let mut rd = FaultyReader::new(&refb, seed ^ 1, chunk_mode, eintr, fault);
            for (i, it) in items.iter().enumerate() {
                let r = catch(|| item_read(it, &mut rd)).map_err(|m| Violation::new("no_panic", format!("reader panicked on {it:?}: {m}")));
                let r = match r {
                    Err(v) => return ctx.report(v),
                    Ok(x) => x,
                };
                ctx.oracle("enc_read");
                let whole = cut.map(|k| bounds[i + 1] <= k).unwrap_or(true);
                if whole {
                    match r {
                        Ok(got) if got == *it && rd.handed_out() == bounds[i + 1] => {}
                        Ok(got) => return ctx.report(Violation::new("enc_roundtrip", format!("item {i}: wrote {it:?}, read {got:?}, consumed to {} (item ends at {})", rd.handed_out(), bounds[i + 1]))),
                        Err(e) => return ctx.report(Violation::new("enc_roundtrip", format!("item {i} {it:?} failed to read back: {e}"))),
                    }
                } else {
                    // an empty item at the cut (zero-length array) reads fine
                    if bounds[i + 1] == bounds[i] {
                        continue;
                    }
                    if r.is_ok() {
                        return ctx.report(Violation::new("straddling_record_rejected", format!("item {i} {it:?} straddles the cut at {cut:?} yet was read")));
                    }
                    ctx.fault("eof@k");
                    break;
                }
            }
            ctx.fault_n("short_read", rd.short_reads);
            ctx.fault_n("eintr", rd.eintrs);
        }
        // non-canonical CompactSize / Optional flag in item vi
        2 => {
            ctx.op("enc_read_noncanonical");
            let cands: Vec<usize> = items.iter().enumerate().filter(|(_, it)| !matches!(it, Item::Arr(_))).map(|(i, _)| i).collect();
            if cands.is_empty() {
                return Ok(());
            }
            let vi = *ch.pick("nc.item", &cands);
            let off = bounds[vi];
            let mutated = match &items[vi] {
                Item::Opt(_) => {
                    let mut b = refb.clone();
                    b[off] = 2 + ch.below("nc.flag", 254) as u8;
                    Some(b)
                }
                _ => widen_compact(&refb, off),
            };
            if let Some(b) = mutated {
                ctx.fault("count_field_noncanonical");
                let mut rd = FaultyReader::new(&b, seed ^ 2, chunk_mode, eintr, ReadFault::None);
                for (i, it) in items.iter().enumerate().take(vi + 1) {
                    let r = catch(|| item_read(it, &mut rd)).map_err(|m| Violation::new("no_panic", format!("reader panicked: {m}")));
                    let r = match r {
                        Err(v) => return ctx.report(v),
                        Ok(x) => x,
                    };
                    ctx.oracle("noncanonical_count_rejected");
                    if i == vi && r.is_ok() {
                        return ctx.report(Violation::new("noncanonical_count_rejected", format!("item {i} {it:?}: non-canonical prefix/flag accepted as {:?}", r.unwrap())));
                    }
                }
            }
        }
        // bounded read of an over-limit value; bounded write of an over-limit size
        3 => {
            ctx.op("enc_over_limit");
            let v = MAX_COMPACT_SIZE as u64 + 1 + ch.below("ol.v", 1 << 20);
            let mut b = vec![];
            compact_into(&mut b, v);
            ctx.fault("count_field_flip");
            let r = catch(|| CompactSize::read(&b[..])).map_err(|m| Violation::new("no_panic", m));
            match r {
                Err(v) => return ctx.report(v),
                Ok(Ok(x)) => return ctx.report(Violation::new("over_limit_count_rejected", format!("CompactSize::read accepted {x} > MAX_COMPACT_SIZE"))),
                Ok(Err(_)) => {}
            }
            let r = catch(|| Vector::read(&b[..], |r| rd_u8(r))).map_err(|m| Violation::new("no_panic", m));
            match r {
                Err(v) => return ctx.report(v),
                Ok(Ok(x)) => return ctx.report(Violation::new("over_limit_count_rejected", format!("Vector::read accepted a length of {}", x.len()))),
                Ok(Err(_)) => {}
            }
            let mut w = FaultyWriter::new(seed, 0, 0, WriteFault::None);
            let r = catch(|| CompactSize::write(&mut w, v as usize)).map_err(|m| Violation::new("no_panic", m));
            ctx.oracle("over_limit_count_rejected");
            match r {
                Err(v) => return ctx.report(v),
                Ok(Ok(())) => return ctx.report(Violation::new("over_limit_count_rejected", format!("CompactSize::write accepted {v} > MAX_COMPACT_SIZE"))),
                Ok(Err(_)) => {
                    if !w.got.is_empty() {
                        return ctx.report(Violation::new("written_bytes_are_prefix", "refused CompactSize::write still emitted bytes".to_string()));
                    }
                }
            }
        }
        // hard write error at k
        _ => {
            ctx.op("enc_write_error");
            if refb.is_empty() {
                return Ok(());
            }
            let k = ch.idx("w.at", refb.len());
            let mut w = FaultyWriter::new(seed ^ 3, chunk_mode.min(3), eintr, WriteFault::Hard(k));
            let mut failed = false;
            for it in &items {
                let r = catch(|| item_write(it, &mut w)).map_err(|m| Violation::new("no_panic", m));
                match r {
                    Err(v) => return ctx.report(v),
                    Ok(Err(_)) => {
                        failed = true;
                        break;
                    }
                    Ok(Ok(())) => {}
                }
            }
            ctx.fault("write_error@k");
            ctx.oracle("faulty_write");
            if !failed {
                return ctx.report(Violation::new("write_error_propagates", format!("writer failed at {k} of {} but every item write reported success", refb.len())));
            }
            if w.got[..] != refb[..w.got.len()] {
                return ctx.report(Violation::new("written_bytes_are_prefix", "bytes before the failure are not a prefix of the encoding".to_string()));
            }
        }
    }
    Ok(())
}

pub struct Enc;

impl Scenario for Enc {
    fn property(&self) -> &'static str {
        "C03"
    }
    fn name(&self) -> &'static str {
        "enc"
    }
    fn level(&self) -> &'static str {
        "fault_enumeration"
    }
    fn run(&self, ch: &mut Choices, ctx: &mut RunCtx) -> SimResult {
        run_enc(ch, ctx)
    }
    fn runs(&self, tier: Tier) -> u64 {
        match tier {
            Tier::Quick => 60_000,
            Tier::Thorough => 1_000_000,
        }
    }
    fn budget_s(&self, tier: Tier) -> u64 {
        match tier {
            Tier::Quick => 30,
            Tier::Thorough => 300,
        }
    }
    fn rule(&self) -> &'static str {
        "one run = one sequence of 1-6 zcash_encoding primitives (CompactSize bounded/unbounded at boundary values, Vector, Array, Optional) written through a short-writing/interrupting writer, compared with an independent reference encoding and read back through the faulty reader (clean, truncated, non-canonical prefix/flag, over-limit, write error); non-trivial and distinct as for the stream scenario"
    }
    fn components(&self) -> serde_json::Value {
        json!({"zcash_encoding 0.5 (local): CompactSize, Vector, Array, Optional": "real"})
    }
    fn assumptions(&self) -> Vec<&'static str> {
        vec![]
    }
    fn fault_kinds(&self) -> Vec<&'static str> {
        vec![]
    }
}
