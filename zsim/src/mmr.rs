//! C20 — chain-history tree (`zcash_history`) driven the way a node's history database drives it:
//! a record store of serialised entries, an actor that appends a leaf per block and truncates on
//! reorg, restarts between operations (view rebuilt from parsed records with the minimal set of
//! extra nodes), faulty record reads; oracle = independent from-scratch MMR.

use std::collections::BTreeSet;

use serde_json::json;
use zcash_history::{Entry, EntryLink, NodeData, NodeDataV2, NodeDataV3, Tree, Version, V1, V2, V3};

use crate::choices::Choices;
use crate::runner::catch;
use crate::sim::{RunCtx, Scenario, SimResult, Tier, Violation};

/// Harness-side leaf (superset of the three node-data versions).
#[derive(Clone, Debug)]
pub struct Leaf {
    commitment: [u8; 32],
    time: u32,
    target: u32,
    sapling_root: [u8; 32],
    work: [u8; 32], // little endian
    height: u64,
    sapling_tx: u64,
    orchard_root: [u8; 32],
    orchard_tx: u64,
    ironwood_root: [u8; 32],
    ironwood_tx: u64,
}

/// Harness-side node (independent re-implementation of the ZIP 221 combination rule and of the
/// later node versions).
#[derive(Clone, Debug)]
struct MNode {
    commitment: [u8; 32],
    start_time: u32,
    end_time: u32,
    start_target: u32,
    end_target: u32,
    start_sapling_root: [u8; 32],
    end_sapling_root: [u8; 32],
    work: [u8; 32],
    start_height: u64,
    end_height: u64,
    sapling_tx: u64,
    start_orchard_root: [u8; 32],
    end_orchard_root: [u8; 32],
    orchard_tx: u64,
    start_ironwood_root: [u8; 32],
    end_ironwood_root: [u8; 32],
    ironwood_tx: u64,
}

fn compact(out: &mut Vec<u8>, v: u64) {
    if v < 253 {
        out.push(v as u8);
    } else if v <= 0xFFFF {
        out.push(253);
        out.extend_from_slice(&(v as u16).to_le_bytes());
    } else if v <= 0xFFFF_FFFF {
        out.push(254);
        out.extend_from_slice(&(v as u32).to_le_bytes());
    } else {
        out.push(255);
        out.extend_from_slice(&v.to_le_bytes());
    }
}

fn add256(a: &[u8; 32], b: &[u8; 32]) -> [u8; 32] {
    let mut out = [0u8; 32];
    let mut carry = 0u16;
    for i in 0..32 {
        let s = a[i] as u16 + b[i] as u16 + carry;
        out[i] = s as u8;
        carry = s >> 8;
    }
    out
}

impl MNode {
    fn leaf(l: &Leaf) -> Self {
        MNode {
            commitment: l.commitment,
            start_time: l.time,
            end_time: l.time,
            start_target: l.target,
            end_target: l.target,
            start_sapling_root: l.sapling_root,
            end_sapling_root: l.sapling_root,
            work: l.work,
            start_height: l.height,
            end_height: l.height,
            sapling_tx: l.sapling_tx,
            start_orchard_root: l.orchard_root,
            end_orchard_root: l.orchard_root,
            orchard_tx: l.orchard_tx,
            start_ironwood_root: l.ironwood_root,
            end_ironwood_root: l.ironwood_root,
            ironwood_tx: l.ironwood_tx,
        }
    }
    fn ser(&self, ver: u8) -> Vec<u8> {
        let mut o = Vec::with_capacity(320);
        o.extend_from_slice(&self.commitment);
        o.extend_from_slice(&self.start_time.to_le_bytes());
        o.extend_from_slice(&self.end_time.to_le_bytes());
        o.extend_from_slice(&self.start_target.to_le_bytes());
        o.extend_from_slice(&self.end_target.to_le_bytes());
        o.extend_from_slice(&self.start_sapling_root);
        o.extend_from_slice(&self.end_sapling_root);
        o.extend_from_slice(&self.work);
        compact(&mut o, self.start_height);
        compact(&mut o, self.end_height);
        compact(&mut o, self.sapling_tx);
        if ver >= 2 {
            o.extend_from_slice(&self.start_orchard_root);
            o.extend_from_slice(&self.end_orchard_root);
            compact(&mut o, self.orchard_tx);
        }
        if ver >= 3 {
            o.extend_from_slice(&self.start_ironwood_root);
            o.extend_from_slice(&self.end_ironwood_root);
            compact(&mut o, self.ironwood_tx);
        }
        o
    }
    fn combine(l: &MNode, r: &MNode, ver: u8, branch: u32) -> MNode {
        let mut pers = [0u8; 16];
        pers[..12].copy_from_slice(b"ZcashHistory");
        pers[12..].copy_from_slice(&branch.to_le_bytes());
        let mut buf = l.ser(ver);
        buf.extend_from_slice(&r.ser(ver));
        let h = blake2b_simd::Params::new().hash_length(32).personal(&pers).hash(&buf);
        let mut c = [0u8; 32];
        c.copy_from_slice(h.as_bytes());
        MNode {
            commitment: c,
            start_time: l.start_time,
            end_time: r.end_time,
            start_target: l.start_target,
            end_target: r.end_target,
            start_sapling_root: l.start_sapling_root,
            end_sapling_root: r.end_sapling_root,
            work: add256(&l.work, &r.work),
            start_height: l.start_height,
            end_height: r.end_height,
            sapling_tx: l.sapling_tx + r.sapling_tx,
            start_orchard_root: l.start_orchard_root,
            end_orchard_root: r.end_orchard_root,
            orchard_tx: l.orchard_tx + r.orchard_tx,
            start_ironwood_root: l.start_ironwood_root,
            end_ironwood_root: r.end_ironwood_root,
            ironwood_tx: l.ironwood_tx + r.ironwood_tx,
        }
    }
    /// From-scratch MMR root over `leaves`: perfect subtrees for the binary decomposition of the
    /// leaf count, left to right, then bagged left to right.
    fn root(leaves: &[Leaf], ver: u8, branch: u32) -> MNode {
        fn perfect(leaves: &[Leaf], ver: u8, branch: u32) -> MNode {
            if leaves.len() == 1 {
                MNode::leaf(&leaves[0])
            } else {
                let (a, b) = leaves.split_at(leaves.len() / 2);
                MNode::combine(&perfect(a, ver, branch), &perfect(b, ver, branch), ver, branch)
            }
        }
        let n = leaves.len();
        let mut off = 0;
        let mut acc: Option<MNode> = None;
        for k in (0..64).rev() {
            let sz = 1usize << k;
            if n & sz != 0 {
                let p = perfect(&leaves[off..off + sz], ver, branch);
                off += sz;
                acc = Some(match acc {
                    None => p,
                    Some(a) => MNode::combine(&a, &p, ver, branch),
                });
            }
        }
        acc.expect("non-empty")
    }
}

pub trait SimVer: Version {
    const VER: u8;
    fn make(l: &Leaf, branch: u32) -> Self::NodeData;
}
fn v1(l: &Leaf, branch: u32) -> NodeData {
    NodeData {
        consensus_branch_id: branch,
        subtree_commitment: l.commitment,
        start_time: l.time,
        end_time: l.time,
        start_target: l.target,
        end_target: l.target,
        start_sapling_root: l.sapling_root,
        end_sapling_root: l.sapling_root,
        subtree_total_work: primitive_u256(&l.work),
        start_height: l.height,
        end_height: l.height,
        sapling_tx: l.sapling_tx,
    }
}
fn primitive_u256(le: &[u8; 32]) -> primitive_types::U256 {
    primitive_types::U256::from_little_endian(le)
}

impl SimVer for V1 {
    const VER: u8 = 1;
    fn make(l: &Leaf, branch: u32) -> NodeData {
        v1(l, branch)
    }
}
impl SimVer for V2 {
    const VER: u8 = 2;
    fn make(l: &Leaf, branch: u32) -> NodeDataV2 {
        NodeDataV2 { v1: v1(l, branch), start_orchard_root: l.orchard_root, end_orchard_root: l.orchard_root, orchard_tx: l.orchard_tx }
    }
}
impl SimVer for V3 {
    const VER: u8 = 3;
    fn make(l: &Leaf, branch: u32) -> NodeDataV3 {
        NodeDataV3 {
            v2: <V2 as SimVer>::make(l, branch),
            start_ironwood_root: l.ironwood_root,
            end_ironwood_root: l.ironwood_root,
            ironwood_tx: l.ironwood_tx,
        }
    }
}

/// Array length of an MMR with n leaves.
fn array_len(n: u64) -> u64 {
    2 * n - n.count_ones() as u64
}

/// Positions (array indices) of the peaks for n leaves, left to right, with their leaf counts.
fn peak_positions(n: u64) -> Vec<(u32, u64)> {
    let mut out = vec![];
    let mut off = 0u64;
    for k in (0..40).rev() {
        let sz = 1u64 << k;
        if n & sz != 0 {
            let span = 2 * sz - 1;
            out.push(((off + span - 1) as u32, sz));
            off += span;
        }
    }
    out
}

/// Indices needed (beyond the peaks) by one `truncate_leaf` on a tree with n leaves: the right
/// spine of the last peak and the left sibling of every spine node.
fn truncate_needs(n: u64) -> Vec<u32> {
    let peaks = peak_positions(n);
    let (mut p, mut sz) = *peaks.last().unwrap();
    let mut out = vec![];
    while sz > 1 {
        let right = p - 1;
        let left = p - sz as u32;
        out.push(left);
        out.push(right);
        p = right;
        sz /= 2;
    }
    out
}

struct Store {
    recs: Vec<Vec<u8>>,
}

fn ser_entry<V: Version>(e: &Entry<V>) -> Result<Vec<u8>, String> {
    let mut v = Vec::new();
    e.write(&mut v).map_err(|e| e.to_string())?;
    Ok(v)
}

struct Sess<'a, V: SimVer> {
    ctx: &'a mut RunCtx,
    branch: u32,
    store: Store,
    leaves: Vec<Leaf>,
    view: Option<Tree<V>>,
    view_full: bool,
}

impl<V: SimVer> Sess<'_, V> {
    fn load(&mut self, idx: u32) -> Result<Entry<V>, Violation> {
        let b = &self.store.recs[idx as usize];
        Entry::<V>::from_bytes(self.branch, b).map_err(|e| Violation::new("record_parses_back", format!("record {idx} does not parse: {e}")))
    }
    /// Rebuild the view from the store: peaks + the given extras (or every node when `full`).
    fn restart(&mut self, extras: &BTreeSet<u32>, full: bool) -> SimResult {
        let n = self.leaves.len() as u64;
        let peaks = peak_positions(n);
        let mut pk = vec![];
        for (i, _) in &peaks {
            pk.push((*i, self.load(*i)?));
        }
        let mut ex = vec![];
        if full {
            for i in 0..self.store.recs.len() as u32 {
                if !peaks.iter().any(|(p, _)| *p == i) {
                    ex.push((i, self.load(i)?));
                }
            }
        } else {
            for i in extras {
                if !peaks.iter().any(|(p, _)| p == i) {
                    ex.push((*i, self.load(*i)?));
                }
            }
        }
        let len = self.store.recs.len() as u32;
        let t = catch(|| Tree::<V>::new(len, pk, ex)).map_err(|m| Violation::new("no_panic", format!("Tree::new panicked: {m}")))?;
        self.view = Some(t);
        self.view_full = full;
        Ok(())
    }
    fn check_root(&mut self, what: &str) -> SimResult {
        let n = self.leaves.len() as u64;
        let t = self.view.as_ref().unwrap();
        self.ctx.oracle("root_equals_from_scratch_mmr");
        if t.len() as u64 != array_len(n) || self.store.recs.len() as u64 != array_len(n) {
            let d = format!("{what}: tree.len()={} store={} expected {} for {} leaves", t.len(), self.store.recs.len(), array_len(n), n);
            return self.ctx.report(Violation::new("length_matches_layout", d));
        }
        let root = match t.root_node() {
            Ok(r) => r,
            Err(e) => return self.ctx.report(Violation::new("root_resolvable", format!("{what}: {e}"))),
        };
        let got = V::to_bytes(root.data());
        let model = MNode::root(&self.leaves, V::VER, self.branch).ser(V::VER);
        if got != model || V::consensus_branch_id(root.data()) != self.branch {
            let d = format!("{what}: root differs from from-scratch MMR over {} leaves (got {} model {})", n, hex::encode(&got[..16]), hex::encode(&model[..16]));
            return self.ctx.report(Violation::new("root_equals_from_scratch_mmr", d));
        }
        Ok(())
    }
    fn append(&mut self, leaf: Leaf) -> SimResult {
        let data = V::make(&leaf, self.branch);
        let t = self.view.as_mut().unwrap();
        let r = catch(|| t.append_leaf(data)).map_err(|m| Violation::new("no_panic", format!("append_leaf panicked: {m}")))?;
        let links = match r {
            Ok(l) => l,
            Err(e) => {
                return self.ctx.report(Violation::new("append_on_sufficient_view_succeeds", format!("append_leaf on a view with all peaks failed: {e}")));
            }
        };
        if links.is_empty() {
            return self.ctx.report(Violation::new("append_returns_new_nodes", "no link returned".to_string()));
        }
        for l in links {
            let idx = match l {
                EntryLink::Stored(i) => i,
                EntryLink::Generated(_) => {
                    return self.ctx.report(Violation::new("append_returns_stored_links", "generated link returned for persistence".to_string()));
                }
            };
            if idx as usize != self.store.recs.len() {
                return self.ctx.report(Violation::new("append_links_consecutive", format!("link {idx} but store has {} records", self.store.recs.len())));
            }
            let t = self.view.as_ref().unwrap();
            let node = t.resolve_link(l).map_err(|e| Violation::new("append_links_resolvable", e.to_string()))?;
            let bytes = ser_entry(node.node()).map_err(|e| Violation::new("record_serialises", e))?;
            // record round trip
            self.ctx.oracle("record_roundtrip");
            match Entry::<V>::from_bytes(self.branch, &bytes) {
                Ok(e2) => {
                    let b2 = ser_entry(&e2).map_err(|e| Violation::new("record_serialises", e))?;
                    if b2 != bytes {
                        return self.ctx.report(Violation::new("record_roundtrip", format!("record {idx} re-serialises differently")));
                    }
                }
                Err(e) => return self.ctx.report(Violation::new("record_roundtrip", format!("record {idx} does not parse back: {e}"))),
            }
            self.store.recs.push(bytes);
        }
        self.leaves.push(leaf);
        self.ctx.time("leaves_appended", 1);
        Ok(())
    }
    fn truncate(&mut self) -> SimResult {
        let t = self.view.as_mut().unwrap();
        let r = catch(|| t.truncate_leaf()).map_err(|m| Violation::new("no_panic", format!("truncate_leaf panicked: {m}")))?;
        match r {
            Ok(k) => {
                if k as usize > self.store.recs.len() {
                    return self.ctx.report(Violation::new("truncate_count_in_range", format!("asked to remove {k} of {}", self.store.recs.len())));
                }
                let nl = self.store.recs.len() - k as usize;
                self.store.recs.truncate(nl);
                self.leaves.pop();
                self.ctx.time("leaves_truncated", 1);
                Ok(())
            }
            Err(e) => self.ctx.report(Violation::new("truncate_on_sufficient_view_succeeds", format!("truncate_leaf failed with the documented node set loaded: {e}"))),
        }
    }
}

fn gen_leaf(ch: &mut Choices, height: u64, n_max: u64) -> Leaf {
    let mut r = ch.fork_rng("leaf");
    let extreme = r.below(4);
    // counters: stay below u64::MAX / n_max so that sums cannot overflow (the crate adds them with `+`)
    let cap = u64::MAX / n_max.max(1);
    let mut ctr = |r: &mut crate::choices::SubRng| -> u64 {
        match r.below(6) {
            0 => 0,
            1 => r.below(253),
            2 => 253 + r.below(70000),
            3 => (1 << 25) + r.below(1 << 30), // beyond MAX_COMPACT_SIZE
            4 => (1u64 << 32) + r.below(1 << 40),
            _ => cap - r.below(1000),
        }
    };
    let sapling_tx = ctr(&mut r);
    let orchard_tx = ctr(&mut r);
    let ironwood_tx = ctr(&mut r);
    let mut work = r.bytes32();
    // keep total work below 2^256: clear the top 11 bits (n_max <= 2048)
    work[31] = 0;
    work[30] &= 0x1f;
    if extreme == 0 {
        work = [0u8; 32];
    }
    Leaf {
        commitment: r.bytes32(),
        time: if extreme == 1 { u32::MAX } else { r.next() as u32 },
        target: if extreme == 2 { u32::MAX } else { r.next() as u32 },
        sapling_root: r.bytes32(),
        work,
        height,
        sapling_tx,
        orchard_root: r.bytes32(),
        orchard_tx,
        ironwood_root: r.bytes32(),
        ironwood_tx,
    }
}

fn next_height(base: u64, n_leaves: usize, n_max: u64) -> Option<u64> {
    if (n_leaves as u64) >= n_max - 2 {
        return None;
    }
    base.checked_add(n_leaves as u64)
}

fn drive<V: SimVer>(ch: &mut Choices, ctx: &mut RunCtx, big: bool) -> SimResult {
    let branch = match ch.below("branch", 4) {
        0 => 0,
        1 => 0x76b8_09bb,
        2 => u32::MAX,
        _ => ch.u64("branch.v") as u32,
    };
    let n_max: u64 = 2048;
    let base = match ch.below("base_height", 6) {
        0 => 0u64,
        1 => ch.below("base.small", 3_000_000),
        2 => (u32::MAX as u64) - ch.below("base.u32", 64),
        3 => u64::MAX - n_max - ch.below("base.top", 1000),
        // the last leaves reach u64::MAX itself; appends stop there
        4 => u64::MAX - ch.below("base.max", 48),
        _ => ch.u64("base.any") % (u64::MAX - n_max),
    };
    let max_ops = if big { 400 } else { 48 };
    let n_ops = 4 + ch.below("n_ops", max_ops);
    ctx.config = json!({"version": V::VER, "branch": branch, "base_height": base, "n_ops": n_ops});
    ctx.shape(&format!("v{}", V::VER));
    let mut s: Sess<V> = Sess { ctx, branch, store: Store { recs: vec![] }, leaves: vec![], view: None, view_full: true };

    // genesis leaf: the store starts with one leaf record written by the harness through the crate's own writer
    let l0 = gen_leaf(ch, base, n_max);
    let e0 = Entry::<V>::new_leaf(V::make(&l0, branch));
    s.store.recs.push(ser_entry(&e0).map_err(|e| Violation::new("record_serialises", e))?);
    s.leaves.push(l0);
    s.restart(&BTreeSet::new(), true)?;
    s.check_root("genesis")?;

    for _ in 0..n_ops {
        if !ch.more() {
            break;
        }
        ch.open("op");
        let n = s.leaves.len() as u64;
        let k = ch.weighted("op", &[30, 22, 12, 10, 10, 8, 8]);
        match k {
            // append j leaves on the current view
            0 => {
                let j = 1 + if big { ch.below("app.n", 24) } else { ch.below("app.n", 5) };
                s.ctx.op("append");
                for _ in 0..j {
                    if let Some(h) = next_height(base, s.leaves.len(), n_max) {
                        let leaf = gen_leaf(ch, h, n_max);
                        s.append(leaf)?;
                    }
                }
                s.ctx.event(format!("append x{j} -> {} leaves", s.leaves.len()));
                s.check_root("after append")?;
            }
            // restart with the minimal view for one truncate, then truncate
            1 => {
                if n >= 2 {
                    s.ctx.op("restart_min+truncate");
                    let needs: BTreeSet<u32> = truncate_needs(n).into_iter().collect();
                    s.restart(&needs, false)?;
                    s.ctx.probe("mmr_partial_view_used");
                    s.ctx.fault("party_restart");
                    s.truncate()?;
                    s.ctx.event(format!("restart(min {} extras)+truncate -> {} leaves", needs.len(), s.leaves.len()));
                    s.check_root("after truncate on minimal view")?;
                    // the view is minimal for one operation only
                    s.restart(&BTreeSet::new(), true)?;
                }
            }
            // restart with peaks only, then append (appends need the peaks only)
            2 => {
                s.ctx.op("restart_peaks+append");
                s.restart(&BTreeSet::new(), false)?;
                s.ctx.probe("mmr_partial_view_used");
                s.ctx.fault("party_restart");
                let j = 1 + ch.below("app.n", 4);
                for _ in 0..j {
                    if let Some(h) = next_height(base, s.leaves.len(), n_max) {
                        let leaf = gen_leaf(ch, h, n_max);
                        s.append(leaf)?;
                    }
                }
                s.ctx.event(format!("restart(peaks)+append x{j} -> {} leaves", s.leaves.len()));
                s.check_root("after append on peaks-only view")?;
                s.restart(&BTreeSet::new(), true)?;
            }
            // truncate j leaves on a full view (reorg of depth j)
            3 => {
                let j = 1 + ch.below("trunc.n", if big { 40 } else { 6 });
                s.ctx.op("truncate");
                if !s.view_full {
                    s.restart(&BTreeSet::new(), true)?;
                }
                let mut done = 0;
                for _ in 0..j {
                    if s.leaves.len() >= 2 {
                        s.truncate()?;
                        done += 1;
                    }
                }
                s.ctx.event(format!("truncate x{done} -> {} leaves", s.leaves.len()));
                s.check_root("after truncate")?;
                // a long-lived view accumulates nothing we rely on; reload to keep sessions bounded
                s.restart(&BTreeSet::new(), true)?;
            }
            // append then truncate restores root, length and records
            4 => {
                let Some(h) = next_height(base, s.leaves.len(), n_max) else {
                    ch.close();
                    continue;
                };
                s.ctx.op("append_then_truncate");
                let before_store = s.store.recs.clone();
                let before_root = V::to_bytes(s.view.as_ref().unwrap().root_node().map_err(|e| Violation::new("root_resolvable", e.to_string()))?.data());
                let minimal = ch.chance("att.minimal", 1, 2);
                if minimal {
                    // minimal view for append followed by truncate: peaks + what truncate of n+1 leaves
                    // needs among the nodes that already exist
                    let len0 = s.store.recs.len() as u32;
                    let needs: BTreeSet<u32> = truncate_needs(n + 1).into_iter().filter(|i| *i < len0).collect();
                    s.restart(&needs, false)?;
                    s.ctx.probe("mmr_partial_view_used");
                }
                let leaf = gen_leaf(ch, h, n_max);
                s.append(leaf)?;
                s.truncate()?;
                s.ctx.oracle("append_then_truncate_restores");
                let after_root = V::to_bytes(s.view.as_ref().unwrap().root_node().map_err(|e| Violation::new("root_resolvable", e.to_string()))?.data());
                if after_root != before_root || s.store.recs != before_store {
                    let d = format!("at {} leaves: root or records differ after append+truncate (minimal view: {minimal})", n);
                    s.ctx.report(Violation::new("append_then_truncate_restores", d))?;
                }
                s.ctx.event(format!("append+truncate at {n} leaves (minimal={minimal})"));
                s.check_root("after append+truncate")?;
                s.restart(&BTreeSet::new(), true)?;
            }
            // the same operation on a minimal view and on the full view gives the same result
            5 => {
                if n >= 2 {
                    s.ctx.op("partial_vs_full");
                    let snapshot_store = s.store.recs.clone();
                    let snapshot_leaves = s.leaves.clone();
                    let m = 1 + ch.below("pvf.trunc", 3.min(n - 1));
                    // union of needs for m consecutive truncations
                    let mut needs = BTreeSet::new();
                    for i in 0..m {
                        needs.extend(truncate_needs(n - i));
                    }
                    s.restart(&needs, false)?;
                    s.ctx.probe("mmr_partial_view_used");
                    for _ in 0..m {
                        s.truncate()?;
                    }
                    let a_store = s.store.recs.clone();
                    let a_root = V::to_bytes(s.view.as_ref().unwrap().root_node().map_err(|e| Violation::new("root_resolvable", e.to_string()))?.data());
                    s.store.recs = snapshot_store;
                    s.leaves = snapshot_leaves;
                    s.restart(&BTreeSet::new(), true)?;
                    for _ in 0..m {
                        s.truncate()?;
                    }
                    let b_root = V::to_bytes(s.view.as_ref().unwrap().root_node().map_err(|e| Violation::new("root_resolvable", e.to_string()))?.data());
                    s.ctx.oracle("partial_view_equals_full_view");
                    if a_store != s.store.recs || a_root != b_root {
                        s.ctx.report(Violation::new("partial_view_equals_full_view", format!("{m} truncations from {n} leaves differ between minimal and full view")))?;
                    }
                    s.ctx.event(format!("partial-vs-full: {m} truncations from {n} leaves"));
                    s.check_root("after partial-vs-full")?;
                }
            }
            // faulty record read: short record / flipped byte must not panic, and whatever parses
            // must re-serialise to the bytes it consumed
            _ => {
                s.ctx.op("faulty_record_read");
                let idx = ch.idx("rec", s.store.recs.len());
                let mut b = s.store.recs[idx].clone();
                let kind = ch.below("rec.fault", 3);
                let desc;
                match kind {
                    0 => {
                        let cut = ch.idx("rec.cut", b.len());
                        b.truncate(cut);
                        desc = format!("short read: {cut} of {} bytes", s.store.recs[idx].len());
                        s.ctx.fault("eof@k");
                    }
                    1 => {
                        let p = ch.idx("rec.pos", b.len());
                        let bit = ch.below("rec.bit", 8);
                        b[p] ^= 1 << bit;
                        desc = format!("bit flip at {p}.{bit}");
                        s.ctx.fault("bit_flip@k");
                    }
                    _ => {
                        // rewrite a CompactSize counter as a non-canonical encoding: find the height field
                        // (fixed offset after kind byte / links) and widen it
                        let off = if b[0] == 1 { 1 } else { 9 } + 32 + 16 + 64 + 32;
                        let v = b[off];
                        if v < 253 {
                            b.splice(off..off + 1, [253u8, v, 0]);
                            desc = "non-canonical CompactSize start height".to_string();
                        } else {
                            b[off] = 255;
                            desc = "CompactSize tag widened".to_string();
                        }
                        s.ctx.fault("count_field_flip");
                    }
                }
                let branch = s.branch;
                let r = catch(|| Entry::<V>::from_bytes(branch, &b)).map_err(|m| Violation::new("no_panic", format!("Entry::from_bytes panicked on {desc}: {m}")))?;
                s.ctx.oracle("faulty_record_read");
                match r {
                    Err(_) => {
                        s.ctx.shape("rec_err");
                    }
                    Ok(e) => {
                        s.ctx.shape("rec_ok");
                        if kind == 0 {
                            s.ctx.report(Violation::new("short_record_rejected", format!("{desc} parsed successfully")))?;
                        }
                        // leaf_count must not panic on what read() accepted
                        catch(|| e.leaf_count()).map_err(|m| Violation::new("no_panic", format!("leaf_count panicked on an accepted record ({desc}): {m}")))?;
                        let b2 = ser_entry(&e).map_err(|e| Violation::new("record_serialises", e))?;
                        if b.len() < b2.len() || b[..b2.len()] != b2[..] {
                            s.ctx.report(Violation::new("accepted_record_is_canonical", format!("{desc}: accepted record re-serialises differently")))?;
                        }
                    }
                }
                s.ctx.event(format!("faulty read of record {idx}: {desc}"));
            }
        }
        ch.close();
    }
    s.ctx.time("final_leaves", s.leaves.len() as u64);
    Ok(())
}

pub struct Mmr;

impl Scenario for Mmr {
    fn property(&self) -> &'static str {
        "C20"
    }
    fn name(&self) -> &'static str {
        "mmr"
    }
    fn run(&self, ch: &mut Choices, ctx: &mut RunCtx) -> SimResult {
        let big = ch.chance("big", 1, 8);
        match ch.below("version", 3) {
            0 => drive::<V1>(ch, ctx, big),
            1 => drive::<V2>(ch, ctx, big),
            _ => drive::<V3>(ch, ctx, big),
        }
    }
    fn runs(&self, tier: Tier) -> u64 {
        match tier {
            Tier::Quick => 40_000,
            Tier::Thorough => 600_000,
        }
    }
    fn budget_s(&self, tier: Tier) -> u64 {
        match tier {
            Tier::Quick => 90,
            Tier::Thorough => 900,
        }
    }
    fn rule(&self) -> &'static str {
        "one run = one seeded history of appends / truncations / restarts / faulty record reads over a record store, per node-data version; non-trivial = at least one restart onto a partial view or one faulty read fired; distinct = distinct hash of the sequence (version, operation kinds, fault kinds, parse outcomes)"
    }
    fn components(&self) -> serde_json::Value {
        json!({"zcash_history::Tree/Entry/NodeData (append, truncate, read, write, combine)": "real",
               "node record store (history database of a full node)": "stub (Vec of serialised records)",
               "from-scratch MMR oracle (BLAKE2b ZcashHistory personalisation, ZIP 221 combine)": "harness re-implementation"})
    }
    fn assumptions(&self) -> Vec<&'static str> {
        vec![
            "leaves carry consecutive heights (the tree derives subtree completeness from heights, as blocks do)",
            "per-leaf counters and work are capped so that sums over <=2048 leaves do not overflow u64/U256 (the crate adds them with `+`)",
            "sampling, not enumeration: a clean batch is evidence, not proof",
        ]
    }
    fn expected_probes(&self) -> Vec<&'static str> {
        vec!["mmr_partial_view_used"]
    }
    fn fault_kinds(&self) -> Vec<&'static str> {
        vec!["party_restart", "eof@k", "bit_flip@k", "count_field_flip"]
    }
    fn time_note(&self) -> &'static str {
        "simulated time = leaves appended / truncated (one leaf = one block connected / disconnected)"
    }
}
