#!/usr/bin/env python3
"""Confirm a seeded mutant in a scratch worktree and file it under /verif/seeded/<id>/.

usage: tools_seeded.py verify <worktree> <mutant_dir> <seeded_id> <property> [--skip-existing]

The mutant dir holds patch.diff, a demonstration source whose header names where to place it
("Place at: <path relative to the worktree>") and how to run it ("Run with: <command>"), and
notes.md. Steps, all inside the scratch worktree:
  1. clean tree + demo  -> the demo command must pass
  2. patch + demo       -> the demo command must fail
  3. patch, no demo     -> the existing tests of every crate the patch touches must pass
Results go to /verif/seeded/<id>/meta.json together with copies of patch.diff, the demo and notes.
"""
import json, os, re, shutil, subprocess, sys, time

CRATE_DIRS = {
    'zcash_history': 'zcash_history', 'zcash_primitives': 'zcash_primitives', 'zcash_client_backend': 'zcash_client_backend',
    'zcash_client_sqlite': 'zcash_client_sqlite', 'zcash_transparent': 'zcash_transparent', 'pczt': 'pczt',
    'zcash_pool_migration': 'zcash_pool_migration', 'zcash_pool_migration_memory': 'zcash_pool_migration_memory',
    'zcash_keys': 'zcash_keys', 'zcash_proofs': 'zcash_proofs',
    'components/zcash_encoding': 'zcash_encoding', 'components/zcash_protocol': 'zcash_protocol',
    'components/zcash_address': 'zcash_address', 'components/zip321': 'zip321', 'components/equihash': 'equihash',
    'components/f4jumble': 'f4jumble',
}

def sh(cmd, cwd, timeout=7200):
    t = time.time()
    p = subprocess.run(cmd, shell=True, cwd=cwd, stdout=subprocess.PIPE, stderr=subprocess.STDOUT, timeout=timeout, text=True,
                       env={**os.environ, 'CARGO_NET_OFFLINE': 'true', 'CARGO_BUILD_JOBS': '8'})
    return p.returncode, p.stdout, time.time() - t

def clean(wt):
    sh('git checkout -- . && git clean -fdq -e target', wt)

def main():
    if len(sys.argv) < 6 or sys.argv[1] != 'verify':
        print(__doc__); sys.exit(2)
    wt, mdir, sid, prop = sys.argv[2:6]
    skip_existing = '--skip-existing' in sys.argv
    def opt(name):
        return sys.argv[sys.argv.index(name) + 1] if name in sys.argv else None
    o_place, o_run, o_setup, o_install, o_demo = opt('--place'), opt('--run'), opt('--setup'), opt('--install'), opt('--demo')
    patch = os.path.join(mdir, 'patch.diff')
    demos = [f for f in os.listdir(mdir) if f.endswith('.rs') or f.endswith('.sh')]
    header = {}
    demo_file = None
    if o_run:
        demo_file = o_demo or (demos[0] if demos else None)
        header = {'place': o_place or '', 'run': o_run}
    for f in ([] if o_run else demos):
        txt = open(os.path.join(mdir, f)).read()
        m1 = re.search(r'Place at:\s*(\S+)', txt)
        m2 = re.search(r'Run with:\s*(.+)', txt)
        if m1 and m2:
            demo_file = f
            header = {'place': m1.group(1).strip('`'), 'run': m2.group(1).strip().strip('`')}
            break
    if not demo_file:
        print('no demo with Place at/Run with header in', mdir, demos); sys.exit(2)
    run = header['run']
    if '--offline' not in run:
        run = run.replace('cargo test', 'cargo test --offline', 1)
    dest = os.path.join(wt, header['place'])
    res = {'seeded_id': sid, 'property': prop, 'demo': demo_file, 'demo_place': header['place'], 'demo_cmd': run}
    clean(wt)
    def install():
        if o_setup:
            r, o, _ = sh(f'git apply {os.path.join(mdir, o_setup)}', wt)
            if r != 0: print('setup diff does not apply', o); sys.exit(1)
        if o_install:
            r, o, _ = sh(f'bash {os.path.join(mdir, o_install)} {wt}', mdir)
            if r != 0: print('install script failed', o); sys.exit(1)
        if header['place']:
            os.makedirs(os.path.dirname(dest), exist_ok=True)
            shutil.copy(os.path.join(mdir, demo_file), dest)
    install()
    rc, out, dt = sh(run, wt)
    res['demo_without_patch'] = {'exit': rc, 'wall_s': round(dt), 'tail': out[-600:]}
    rc2, out2, _ = sh(f'git apply {patch}', wt)
    if rc2 != 0:
        print('patch does not apply:', out2); clean(wt); sys.exit(1)
    rc, out, dt = sh(run, wt)
    res['demo_with_patch'] = {'exit': rc, 'wall_s': round(dt), 'tail': out[-900:]}
    # existing tests run on patch alone: clean, re-apply the patch only
    clean(wt)
    sh(f'git apply {patch}', wt)
    # existing tests of touched crates
    touched = set()
    for line in open(patch):
        m = re.match(r'\+\+\+ b/(.+)', line)
        if m:
            p = m.group(1)
            for d, c in CRATE_DIRS.items():
                if p.startswith(d + '/'):
                    touched.add(c)
    res['crates_touched'] = sorted(touched)
    res['existing_tests_with_patch'] = []
    if not skip_existing:
        for c in sorted(touched):
            feat = ''
            if c in ('zcash_client_sqlite', 'zcash_client_backend', 'zcash_primitives', 'zcash_keys', 'pczt', 'zcash_transparent', 'zcash_pool_migration'):
                feat = ' --all-features'
            cmd = f'cargo test --offline -p {c}{feat} 2>&1 | grep -E "^test result|FAILED|failed|error(\\[|:)" | head -40'
            rc, out, dt = sh(cmd, wt)
            ok = ('FAILED' not in out) and ('error' not in out.lower() or 'error: test failed' not in out) and ('test result: ok' in out) and ('failed;' not in out or all(' 0 failed' in l for l in out.splitlines() if 'test result' in l))
            res['existing_tests_with_patch'].append({'cmd': f'cargo test --offline -p {c}{feat}', 'ok': ok, 'wall_s': round(dt), 'summary': out[-1500:]})
    clean(wt)
    good = res['demo_without_patch']['exit'] == 0 and res['demo_with_patch']['exit'] != 0 and all(x['ok'] for x in res['existing_tests_with_patch'])
    res['confirmed'] = good
    notes = open(os.path.join(mdir, 'notes.md')).read() if os.path.exists(os.path.join(mdir, 'notes.md')) else ''
    res['needs_to_manifest'] = notes[:1500]
    out_dir = f'/verif/seeded/{sid}'
    os.makedirs(out_dir, exist_ok=True)
    shutil.copy(patch, os.path.join(out_dir, 'patch.diff'))
    shutil.copy(os.path.join(mdir, demo_file), os.path.join(out_dir, demo_file))
    for extra in (o_setup, o_install):
        if extra:
            shutil.copy(os.path.join(mdir, extra), os.path.join(out_dir, extra))
    if notes:
        shutil.copy(os.path.join(mdir, 'notes.md'), os.path.join(out_dir, 'notes.md'))
    meta_p = os.path.join(out_dir, 'meta.json')
    old = json.load(open(meta_p)) if os.path.exists(meta_p) else {}
    old.update(res)
    json.dump(old, open(meta_p, 'w'), indent=1)
    print(sid, 'confirmed' if good else 'NOT CONFIRMED', json.dumps({k: (v if not isinstance(v, dict) else v.get('exit')) for k, v in res.items() if k.startswith('demo_w')}),
          [(x['cmd'], x['ok']) for x in res['existing_tests_with_patch']])
    sys.exit(0 if good else 1)

main()
