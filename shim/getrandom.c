#define _GNU_SOURCE
#include <sys/types.h>
#include <stdint.h>
#include <string.h>
#include <stdlib.h>
/* Deterministic getrandom() for the simulator (loaded with LD_PRELOAD by /verif/check).
 * The stream is per thread: every freshly spawned thread restarts the same xorshift stream, so a
 * simulated run (always executed on its own fresh thread) sees the same "OS entropy" whether it
 * is run 7 of worker 3 in a search or the only run of a replay process. */
static __thread uint64_t st = 0;
static uint64_t base_seed(void) {
    static uint64_t cached = 0;
    if (!cached) { const char *e = getenv("ZSIM_GETRANDOM_SEED"); uint64_t v = e ? strtoull(e, 0, 10) : 1; if (!v) v = 1; cached = v ^ 0x9E3779B97F4A7C15ull; }
    return cached;
}
void zsim_getrandom_reseed(uint64_t salt) { st = base_seed() ^ (salt * 0xD1342543DE82EF95ull); if (!st) st = 1; }
ssize_t getrandom(void *buf, size_t len, unsigned int flags) {
    (void)flags;
    if (st == 0) st = base_seed();
    unsigned char *p = buf;
    for (size_t i = 0; i < len; i++) { st ^= st << 13; st ^= st >> 7; st ^= st << 17; p[i] = (unsigned char)(st >> 32); }
    return (ssize_t)len;
}
