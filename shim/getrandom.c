#define _GNU_SOURCE
#include <sys/types.h>
#include <sys/syscall.h>
#include <stdint.h>
#include <string.h>
#include <stdlib.h>
#include <stdarg.h>
#include <dlfcn.h>
#include <unistd.h>
/* Deterministic OS entropy for the simulator (loaded with LD_PRELOAD by /verif/check).
 * Intercepts getrandom() and the raw syscall(SYS_getrandom, ...) form used by the `getrandom`
 * crate. The stream is per thread: every freshly spawned thread restarts the same xorshift stream
 * (optionally re-seeded per run), so a simulated run sees the same "OS entropy" whether it is
 * run 7 of worker 3 in a search or the only run of a replay process. */
static __thread uint64_t st = 0;
static uint64_t base_seed(void) {
    static uint64_t cached = 0;
    if (!cached) { const char *e = getenv("ZSIM_GETRANDOM_SEED"); uint64_t v = e ? strtoull(e, 0, 10) : 1; if (!v) v = 1; cached = v ^ 0x9E3779B97F4A7C15ull; }
    return cached;
}
void zsim_getrandom_reseed(uint64_t salt) { st = base_seed() ^ (salt * 0xD1342543DE82EF95ull); if (!st) st = 1; }
static ssize_t fill(void *buf, size_t len) {
    if (st == 0) st = base_seed();
    unsigned char *p = buf;
    for (size_t i = 0; i < len; i++) { st ^= st << 13; st ^= st >> 7; st ^= st << 17; p[i] = (unsigned char)(st >> 32); }
    return (ssize_t)len;
}
ssize_t getrandom(void *buf, size_t len, unsigned int flags) { (void)flags; return fill(buf, len); }
long syscall(long number, ...) {
    static long (*real)(long, ...) = 0;
    va_list ap; va_start(ap, number);
    long a1 = va_arg(ap, long), a2 = va_arg(ap, long), a3 = va_arg(ap, long), a4 = va_arg(ap, long), a5 = va_arg(ap, long), a6 = va_arg(ap, long);
    va_end(ap);
    if (number == SYS_getrandom) return (long)fill((void *)a1, (size_t)a2);
    if (!real) real = (long (*)(long, ...))dlsym(RTLD_NEXT, "syscall");
    return real(number, a1, a2, a3, a4, a5, a6);
}
